"""C12: rounding tolerance.

Arguments are trees over leaves whose *dynamic type* is symbolic (float / int / str, decided by the solver
where the real code asks isinstance) and whose value is an atom; round(x, tol) on a leaf is the
uninterpreted R(x, tol) with tol a symbolic unbounded Int.  The oracle is the statement's rounding function
over the same R; expected keys are produced by a tol=None twin of the same decorator applied to the
oracle-rounded arguments.
"""
import collections
import z3
from ksym.core import Ctx, And, Or, Not, ArgSort, PathPruned, Inconclusive
from ksym.values import Sym, SymInt, CVal
from stubs import cryptoshim
from harness.hist import make_keymap, ALGOS, BOUNDED

P2 = collections.namedtuple('P2', ['u', 'v'])


class Leaf(Sym):
    """atom with a symbolic dynamic type: 0 float, 1 int, 2 str (k None = float)"""
    __slots__ = ('k',)

    def __init__(self, e, s=None, k=None):
        if isinstance(e, Leaf):          # type(x)(x), as float(x) / int(x) / str(x) would
            e, s, k = e.e, e.s, e.k
        Sym.__init__(self, e, s)
        self.k = k

    def kind(self):
        if self.k is None:
            return float
        ctx = Ctx.cur
        if ctx.branch(self.k == 0):
            return float
        if ctx.branch(self.k == 1):
            return int
        return str

    @property
    def __class__(self):
        return self.kind()

    def __round__(self, n=None):
        if n is None:
            n = -999
        r = Ctx.cur.apply('R', [self, n], ArgSort)
        return Leaf(r.e, r.s, None)

    __iter__ = None          # not iterable

    def __reduce__(self):
        from ksym.values import REGISTRY
        return (_restore_leaf, (REGISTRY.put(self),))


def _restore_leaf(i):
    from ksym.values import REGISTRY
    o = REGISTRY.get(i)
    return Leaf(o.e, o.s, o.k)


class _C:
    """concrete leaves for replay: real float/int/str subclasses, equality by the model's class"""
    def __eq__(self, o):
        return isinstance(o, _C) and o.tag == self.tag

    def __ne__(self, o):
        return not self.__eq__(o)

    def __hash__(self):
        return hash(self.tag)

    def __repr__(self):
        return '%s(%s)' % (type(self).__name__, self.tag)
    __str__ = __repr__


class CFloat(_C, float):
    def __new__(cls, tag):
        tag = getattr(tag, 'tag', tag)
        o = float.__new__(cls, float(int(tag[1:])) + 0.5)
        o.tag = tag
        return o

    def __round__(self, n=None):
        if n is None:
            n = -999
        return CFloat(Ctx.cur.apply('R', [self, n], ArgSort).tag)
    __eq__, __ne__, __hash__, __repr__ = _C.__eq__, _C.__ne__, _C.__hash__, _C.__repr__


class CInt(_C, int):
    def __new__(cls, tag):
        tag = getattr(tag, 'tag', tag)
        o = int.__new__(cls, 100000 + int(tag[1:]))
        o.tag = tag
        return o
    __eq__, __ne__, __hash__, __repr__ = _C.__eq__, _C.__ne__, _C.__hash__, _C.__repr__


class CStr(_C, str):
    def __new__(cls, tag):
        tag = getattr(tag, 'tag', tag)
        o = str.__new__(cls, 's' + tag)
        o.tag = tag
        return o
    __eq__, __ne__, __hash__, __repr__ = _C.__eq__, _C.__ne__, _C.__hash__, _C.__repr__


def new_leaf(ctx, base='l'):
    if ctx.concrete():
        a = ctx.atom(ArgSort, base)
        k = ctx.int(base + 'k')
        return (CFloat, CInt, CStr)[min(max(k, 0), 2)](a.tag)
    a = ctx.atom(ArgSort, base)
    k = ctx.const(z3.IntSort(), base + 'k', 'int')
    ctx.solver.add(k >= 0, k <= 2)
    return Leaf(a.e, a.s, k)


def is_leaf(v):
    return type(v) is Leaf or isinstance(v, _C)


def leaf_is_float(v):
    if type(v) is Leaf:
        return v.kind() is float
    return isinstance(v, CFloat)


STRUCTS = {
    'leaf': lambda L: L(),
    'list': lambda L: [L(), L()],
    'tuple': lambda L: (L(), L()),
    'set': lambda L: {L()},
    'frozenset': lambda L: frozenset([L()]),
    'dict_str': lambda L: {'s': L(), 't': L()},
    'dict_int': lambda L: {1: L()},
    'nest_list': lambda L: [[L()], L()],
    'nest_mix': lambda L: ({'s': [L()]}, L()),
    'nest_dict_int': lambda L: [{1: L()}],
    'range': lambda L: range(3),
    'bytes': lambda L: b'ab',
    'str': lambda L: 'abc',
    'none': lambda L: None,
    'namedtuple': lambda L: P2(L(), L()),
    'empty': lambda L: [],
    # one container object referenced twice in the same call (rows of a table built with [row] * 2, f(x, x), ...)
    'alias_list': lambda L: (lambda r: [r, r])([L(), L()]),
    'alias_dict': lambda L: (lambda r: {'s': r, 't': [r]})((L(),)),
    'alias_args': lambda L: [L(), [L()]],
}
REBUILDABLE = (list, tuple, set, frozenset)


def oracle(v, tol, mode, depth=0):
    """the statement's rounding: mode simple = top-level floats; shallow = + one level; deep = any depth"""
    if is_leaf(v):
        return round(v, tol) if leaf_is_float(v) else v
    if mode == 'simple':
        return v
    if mode == 'shallow' and depth >= 1:
        return v
    if isinstance(v, dict):
        if mode == 'shallow':
            return v                        # 'one level deep into each object': dict values are not elements
        return {k: oracle(x, tol, mode, depth + 1) for k, x in v.items()}
    if isinstance(v, REBUILDABLE):
        items = [oracle(x, tol, mode, depth + 1) for x in v]
        if hasattr(v, '_fields'):
            return type(v)(*items)
        return type(v)(items)
    return v                                # strings, bytes, ranges, None, ...: non-float data is never changed


def matches(got, v, tol, mode):
    """got equals the oracle rounding of v; for a namedtuple (a tuple the generic rebuild cannot construct) leaving it
    untouched is accepted as well - the statement only requires that the call does not fail"""
    c = same(got, oracle(v, tol, mode))
    if hasattr(v, '_fields'):
        return Or(c, same(got, v))
    return c


def same(a, b):
    """structural equality as a condition (leaves compare through the solver)"""
    if is_leaf(a) or is_leaf(b):
        if not (is_leaf(a) and is_leaf(b)):
            return False
        return a == b
    if type(a) is not type(b):
        return False
    if isinstance(a, dict):
        if list(a.keys()) != list(b.keys()) and set(a.keys()) != set(b.keys()):
            return False
        return And(*[same(a[k], b[k]) for k in a])
    if isinstance(a, (list, tuple)):
        if len(a) != len(b):
            return False
        return And(*[same(x, y) for x, y in zip(a, b)])
    if isinstance(a, (set, frozenset)):
        if len(a) != len(b):
            return False
        if len(a) == 1:
            return same(next(iter(a)), next(iter(b)))
        return a == b
    return a == b


class Rounding:
    def __init__(self, cfg):
        self.cfg = cfg

    def install(self):
        return cryptoshim.install()

    def signature(self, label, info):
        info = info or {}
        sig = {'label': label, 'struct': self.cfg['struct'], 'mode': self.cfg['mode'], 'kind': info.get('kind')}
        if self.cfg.get('via') in ('simple_round', 'shallow_round', 'deep_round'):
            sig['via'] = self.cfg['via']
        return sig

    def render(self, a):
        return {'struct': self.cfg['struct'], 'via': self.cfg.get('via'), 'mode': self.cfg['mode'], 'vars': a.get('vars', {})}

    def fn(self, ctx):
        import klepto
        import klepto.safe
        import klepto.rounding as KR
        cfg = self.cfg
        canary = cfg.get('canary')
        mode = cfg['mode']            # simple | deep | shallow
        via = cfg.get('via', 'inf')
        tolnone = cfg.get('tol') == 'none'
        tol = None if tolnone else ctx.int('tol')
        received = []

        if cfg.get('pname'):
            # the second parameter is named like a parameter of klepto's own rounding plumbing (tol, deep, args, kwds, func)
            ns = {'received': received}
            exec('def f(x, %s=None):\n    received.append((x, %s))\n    return None\n' % (cfg['pname'], cfg['pname']), ns)
            f = ns['f']
        else:
            def f(x, y=None):
                received.append((x, y))
                return None
        yname = cfg.get('pname') or 'y'
        L = lambda: new_leaf(ctx)
        x = STRUCTS[cfg['struct']](L)
        y = x if cfg['struct'] == 'alias_args' else L()        # f(x, x): the same object bound to two parameters
        callform = ctx.choice(2, 'form')
        args, kw = ((x,), {yname: y}) if callform == 0 else ((x, y), {})
        n_apps = len(ctx.apps) if not ctx.concrete() else 0
        if via in ('simple_round', 'shallow_round', 'deep_round'):
            dec = getattr(KR, via)(tol=tol)
            h = dec(f)
            try:
                h(*args, **kw)
            except (PathPruned, Inconclusive):
                raise
            except Exception as e:
                ctx.check(False, 'C12:no-exception', {'kind': 'rounding raised %s' % type(e).__name__})
                return
            gx, gy = received[-1]
            m = {'simple_round': 'simple', 'shallow_round': 'shallow', 'deep_round': 'deep'}[via]
            if tolnone:
                ctx.check(gx is x and gy is y, 'C12:tol-none', {'kind': 'tol=None changed the arguments'})
                return
            ok = And(matches(gx, x, tol, m), matches(gy, y, tol, m))
            ctx.check(ok if not canary else Not(ok), 'C12:standalone', {'kind': 'arguments handed to the function differ from the rounding oracle'})
            return
        km = make_keymap(cfg.get('keymap', 'rawnf'))
        deep = mode == 'deep'
        if via == 'keygen':
            g = klepto.keygen(keymap=km, tol=tol, deep=deep)(f)
            g0 = klepto.keygen(keymap=km)(f)
            keyf, key0 = g, g0
        else:
            mod = klepto.safe if cfg.get('module') == 'safe' else klepto
            dec = getattr(mod, via + '_cache')
            kws = {'keymap': km, 'tol': tol, 'deep': deep}
            if via in BOUNDED:
                kws['maxsize'] = 3
            g = dec(**kws)(f)
            g0 = mod.inf_cache(keymap=km)(f)
            keyf, key0 = g.key, g0.key
        try:
            k = keyf(*args, **kw)
        except (PathPruned, Inconclusive):
            raise
        except Exception as e:
            ctx.check(False, 'C12:no-exception', {'kind': 'key computation raised %s' % type(e).__name__})
            return
        if tolnone:
            ctx.check(bool(k == key0(*args, **kw)), 'C12:tol-none', {'kind': 'tol=None changed the key'})
            if not ctx.concrete():
                ctx.check(len(ctx.apps) == n_apps, 'C12:tol-none', {'kind': 'tol=None rounded something'})
        else:
            ox, oy = oracle(x, tol, mode), oracle(y, tol, mode)
            oargs, okw = ((ox,), {yname: oy}) if callform == 0 else ((ox, oy), {})
            k0 = key0(*oargs, **okw)
            r = (k == k0)
            if hasattr(x, '_fields') and not bool(r):
                aargs, akw = ((x,), {yname: oy}) if callform == 0 else ((x, oy), {})
                r = (k == key0(*aargs, **akw))
            ctx.check(r if not canary else Not(r), 'C12:key',
                      {'kind': 'key differs from the key of the oracle-rounded arguments'})
        if via == 'keygen':
            # klepto.keygen objects: g(*args) records the call, g.key() gives the key, g.call() evaluates - with the originals
            try:
                g(*args, **kw)
                g.key()
                g.call()
            except (PathPruned, Inconclusive):
                raise
            except Exception as e:
                ctx.check(False, 'C12:no-exception', {'kind': 'keygen call() raised %s' % type(e).__name__})
                return
            gx, gy = received[-1]
            ctx.check(gx is x and gy is y, 'C12:originals', {'kind': 'the function did not receive the original arguments'})
        if via != 'keygen':
            try:
                g(*args, **kw)
            except (PathPruned, Inconclusive):
                raise
            except Exception as e:
                if cfg.get('module') == 'safe':
                    ctx.check(False, 'C12:no-exception', {'kind': 'call raised %s' % type(e).__name__})
                    return
                if isinstance(e, TypeError) and 'unhashable' in str(e):
                    return                   # unhashable raw key on a standard cache: a keymap matter, not rounding
                ctx.check(False, 'C12:no-exception', {'kind': 'call raised %s' % type(e).__name__})
                return
            gx, gy = received[-1]
            ctx.check(gx is x and gy is y, 'C12:originals', {'kind': 'the function did not receive the original arguments'})


def build(cfg):
    return Rounding(cfg)


def plan(prop, tier):
    q = tier == 'quick'
    cfgs = []

    def add(**kw):
        kw['name'] = 'round/%s/%s/%s/%s%s%s' % (kw.get('via', 'inf'), kw.get('module', 'std'), kw['mode'], kw['struct'],
                                              '/' + kw['keymap'] if kw.get('keymap') else '', '/tol=None' if kw.get('tol') == 'none' else '')
        if kw.get('pname'):
            kw['name'] += '/param=' + kw['pname']
        if kw.get('canary'):
            kw['name'] = 'canary:' + kw['name']
        kw['props'] = ['C12']
        cfgs.append(kw)
    structs = list(STRUCTS)
    for s in structs:
        for mode in ('simple', 'deep'):
            vias = ('inf', 'lru', 'keygen') if q else ALGOS + ('keygen',)
            for via in vias:
                mods = ('std',) if via == 'keygen' else (('std', 'safe') if (not q or via == 'inf') else ('std',))
                for m in mods:
                    add(via=via, module=m, mode=mode, struct=s)
            add(via='inf', module='safe', mode=mode, struct=s, keymap='str')
            add(via='inf', module='std', mode=mode, struct=s, tol='none')
        for via in ('simple_round', 'shallow_round', 'deep_round'):
            add(via=via, mode={'simple_round': 'simple', 'shallow_round': 'shallow', 'deep_round': 'deep'}[via], struct=s)
            if not q:
                add(via=via, mode='x', struct=s, tol='none')
    for pn in ('tol', 'deep', 'args', 'kwds', 'func', 'f'):
        for mode in ('simple', 'deep'):
            for via in ('inf', 'keygen', 'lru') + (() if q else ('lfu', 'no')):
                for m in (('std',) if via == 'keygen' else ('std', 'safe')):
                    add(via=via, module=m, mode=mode, struct='leaf', pname=pn)
        for via in ('simple_round', 'shallow_round', 'deep_round'):
            add(via=via, mode={'simple_round': 'simple', 'shallow_round': 'shallow', 'deep_round': 'deep'}[via], struct='leaf', pname=pn)
    add(via='inf', module='std', mode='deep', struct='list', canary=True)
    return cfgs
