"""C09 / C10 / C11 / C17: cache keys over signature shapes x call spellings x keymaps x ignore specs.

Per path: one function of a concrete signature shape (its default objects are atoms), call A in a symbolic
spelling (how many arguments positional, which defaults omitted, keyword order, extras) and call B in the
canonical spelling of an independent binding.  The real key path (rounded_args -> _keygen -> keymap, reached
through f.key of a decorated function or through klepto.keygen) runs on both; the obligation is
    key(A) == key(B)   <=>   binding(A) == binding(B) outside the ignored arguments
decided by z3 per path (=> is C10/C11 discrimination, <= is C09/C11 canonicalisation).  By transitivity
through the canonical spelling this covers every pair of spellings.
C17: key(A) is computed twice under two symbolic process states (iteration order of every set built in
klepto._inspect / klepto.keymaps) and must not change.
"""
import itertools
import z3
from ksym.core import Ctx, And, Or, Not, ArgSort, ValSort, PathPruned, Inconclusive
from ksym.values import Sym
from stubs import cryptoshim
from harness.hist import make_keymap

POS = ('a', 'b', 'c')
KWO = ('k', 'm')
XKW = ('p', 'q')
_POS0 = POS
# parameter names that coincide with names klepto's own plumbing uses for its parameters and locals
HOSTILE_NAMES = ('self', 'func', 'ignored', 'args', 'kwds', 'key', 'keymap', 'cache', 'user_function', 'f', 'tol', 'deep',
                 'object', 'algorithm', 'serializer', 'encoding', 'typed', 'flat', 'sentinel')


def shape_name(sh):
    s = ','.join(POS[i] + ('=D' if i >= sh['npos'] - sh['ndef'] else '') for i in range(sh['npos']))
    if sh['varargs']:
        s += ',*args'
    elif sh['nkwo']:
        s += ',*'
    for i in range(sh['nkwo']):
        s += ',' + KWO[i] + ('=D' if sh['kwodef'][i] else '')
    if sh['varkw']:
        s += ',**kw'
    return 'f(%s)' % s.strip(',')


def all_shapes():
    out = []
    for npos in range(0, 4):
        for ndef in range(0, npos + 1):
            for varargs in (False, True):
                for nkwo in range(0, 3):
                    for kwodef in itertools.product((False, True), repeat=nkwo):
                        for varkw in (False, True):
                            out.append({'npos': npos, 'ndef': ndef, 'varargs': varargs, 'nkwo': nkwo,
                                        'kwodef': list(kwodef), 'varkw': varkw})
    return out


def quick_shapes():
    S = lambda npos, ndef, va=False, nk=0, kd=(), vk=False: {'npos': npos, 'ndef': ndef, 'varargs': va, 'nkwo': nk,
                                                              'kwodef': list(kd), 'varkw': vk}
    return [S(1, 0), S(2, 0), S(2, 1), S(2, 2), S(3, 1), S(3, 2), S(1, 0, True), S(2, 1, True), S(0, 0, True),
            S(1, 0, False, 0, (), True), S(2, 1, False, 0, (), True), S(1, 0, True, 0, (), True), S(2, 1, True, 0, (), True),
            S(1, 0, False, 1, (True,)), S(1, 0, False, 1, (False,)), S(2, 1, False, 2, (True, False)),
            S(1, 0, True, 1, (True,)), S(1, 0, False, 1, (True,), True), S(2, 1, True, 1, (True,), True),
            S(0, 0, False, 0, (), True), S(1, 1, True, 1, (False,), True), S(3, 3), S(3, 0, True), S(0, 0, True, 0, (), True)]


_FACTORIES = {}


def make_function(sh, defaults, log, method=False, lead=None):
    """a function of the given shape built by a factory, so that every function of one shape shares one code object
    (as closures, lambdas in a loop and re-created methods do); default objects are taken from `defaults` by name.
    lead: name of an extra leading positional parameter (a differently shaped function with the same parameter names)"""
    key = (shape_name(sh), method, lead, POS)
    if key not in _FACTORIES:
        f0, ns0 = _make_source(sh, method, lead)
        _FACTORIES[key] = ns0['make']
    f = _FACTORIES[key](defaults, log, lambda: None)
    return f, {'f': f}


def _make_source(sh, method, lead=None):
    params = ['self'] if method else []
    if lead:
        params.append(lead)
    for i in range(sh['npos']):
        n = POS[i]
        params.append(n + ('=_D[%r]' % n if i >= sh['npos'] - sh['ndef'] else ''))
    if sh['varargs']:
        params.append('*_va')
    elif sh['nkwo']:
        params.append('*')
    for i in range(sh['nkwo']):
        n = KWO[i]
        params.append(n + ('=_D[%r]' % n if sh['kwodef'][i] else ''))
    if sh['varkw']:
        params.append('**_vk')
    names = [POS[i] for i in range(sh['npos'])] + [KWO[i] for i in range(sh['nkwo'])]
    body = 'def make(_D, _log, _ret):\n    def f(%s):\n        _log.append((%s))\n        return _ret()\n    return f\n' % (
        ', '.join(params), ''.join('%s, ' % n for n in names) + ('_va, ' if sh['varargs'] else '') + ('_vk, ' if sh['varkw'] else ''))
    ns = {}
    exec(body, ns)
    return None, ns


class Call:
    __slots__ = ('args', 'kw', 'named', 'extras', 'xkw', 'desc', 'wit')


WIT = (1, 1.0, True)            # equal values of different types
WIT2 = (1, 1.0)                 # ... for every named parameter at once (typed keymaps must tell the bindings apart)


def veq(x, y):
    """equality of two bound values: atoms by the solver, concrete witnesses by value *and type*"""
    if type(x) is tuple or type(y) is tuple:
        if type(x) is not type(y) or len(x) != len(y):
            return False
        return And(*[veq(a, b) for a, b in zip(x, y)])
    if isinstance(x, Sym) or isinstance(y, Sym):
        return x == y
    return type(x) is type(y) and x == y
NAMEWIT = ('p', 'q', 'a')       # argument values that coincide with keyword / parameter names


def gen_call(ctx, sh, defaults, free, tag, wit=None):
    """a call of the shape: symbolic spelling if free, canonical spelling otherwise.
    wit='typed': the first argument is one of WIT; wit='names': extra positionals may be strings equal to keyword names"""
    c = Call()
    c.wit = None
    npos = sh['npos']
    named = {}
    args, kwl = [], []
    atom0 = ctx.atom

    class _W:
        first = True
        firstx = True

    def value(base):
        if wit == 'typed2':
            return WIT2[ctx.choice(len(WIT2), tag + 'w2')]
        if wit == 'typed' and _W.first:
            _W.first = False
            c.wit = ctx.choice(len(WIT), tag + 'w')
            return WIT[c.wit]
        return atom0(ArgSort, base)

    def extra_value(base):
        if wit == 'typedx':
            return WIT[ctx.choice(len(WIT), tag + 'wx')]          # equal values of different types as extra positionals
        if wit == 'names' and not free and _W.firstx:
            _W.firstx = False                    # the canonical call's first extra positional may be a keyword name
            j = ctx.choice(len(NAMEWIT) + 1, tag + 'nw')
            if j < len(NAMEWIT):
                return NAMEWIT[j]
        return value(base)
    if free:
        p = ctx.choice(npos + 1, tag + 'p')
    else:
        p = npos
    for i in range(npos):
        n = POS[i]
        hasdef = i >= npos - sh['ndef']
        if i < p:
            v = value(tag + n)
            named[n] = v
            args.append(v)
        else:
            omit = hasdef and bool(ctx.choice(2, tag + 'o'))
            if omit:
                named[n] = defaults[n]
            else:
                v = value(tag + n)
                named[n] = v
                kwl.append((n, v))
    extras = ()
    if sh['varargs'] and p == npos:
        ne = ctx.choice(3, tag + 'ne')
        extras = tuple(extra_value(tag + 'e') for _ in range(ne))
        if wit == 'tuple' and not free and ne == 2 and ctx.bool(tag + 'tup'):
            extras = (extras,)                  # one extra positional that is the tuple of two values: f((u, v)) is not f(u, v)
        args.extend(extras)
    for i in range(sh['nkwo']):
        n = KWO[i]
        omit = sh['kwodef'][i] and free and bool(ctx.choice(2, tag + 'o'))
        if omit:
            named[n] = defaults[n]
        else:
            v = value(tag + n)
            named[n] = v
            kwl.append((n, v))
    xkw = {}
    if sh['varkw']:
        sub = ctx.choice(4, tag + 'xk')
        for j, n in enumerate(XKW):
            if sub >> j & 1:
                v = value(tag + n)
                xkw[n] = v
                kwl.append((n, v))
    if free and len(kwl) > 1:
        perms = list(itertools.permutations(range(len(kwl))))
        if len(perms) > 6:
            perms = [perms[0], perms[-1]] + [pp for pp in perms if pp[0] == len(kwl) - 1][:2] + [perms[len(perms) // 2]]
        order = perms[ctx.choice(len(perms), tag + 'perm')]
        kwl = [kwl[j] for j in order]
    else:
        kwl = sorted(kwl, key=lambda t: t[0])
    c.args, c.kw, c.named, c.extras, c.xkw = tuple(args), dict(kwl), named, extras, xkw
    c.desc = {'positional': len(args), 'keywords': [k for k, _ in kwl],
              'omitted': [n for n in named if named[n] is defaults.get(n)]}
    return c


def min_call(ctx, sh, tag, explicit=None):
    """the plainest complete call of the shape: required and defaulted parameters positional, no extras
    (explicit: also spell out every keyword-only parameter, defaulted or not)"""
    c = Call()
    c.wit = None
    c.args = tuple(ctx.atom(ArgSort, tag + POS[i]) for i in range(sh['npos']))
    c.kw = {KWO[i]: ctx.atom(ArgSort, tag + KWO[i]) for i in range(sh['nkwo']) if explicit is not None or not sh['kwodef'][i]}
    c.named, c.extras, c.xkw, c.desc = {}, (), {}, {}
    return c


def selected(sh, spec):
    """the ignored arguments, from the statement: names, indices, '*', '**'"""
    names = set(x for x in spec if isinstance(x, str) and x not in ('*', '**'))
    idx = set(x for x in spec if isinstance(x, int))
    for i in range(sh['npos']):
        if i in idx:
            names.add(POS[i])
    return names, idx, '*' in spec, '**' in spec


def binding_eq(sh, spec, A, B):
    """condition 'A and B bind equal values to every non-ignored argument'; None = neither direction demanded"""
    names, idx, star, dstar = selected(sh, spec)
    conds = []
    for n in A.named:
        if n in names:
            continue
        conds.append(veq(A.named[n], B.named[n]))
    if not star:
        la, lb = len(A.extras), len(B.extras)
        if la != lb:
            lo, hi = min(la, lb), max(la, lb)
            if all((sh['npos'] + i) in idx for i in range(lo, hi)):
                return None        # presence of an index-ignored extra positional: not specified either way
            return False
        for i in range(la):
            if (sh['npos'] + i) in idx:
                continue
            conds.append(veq(A.extras[i], B.extras[i]))
    if not dstar:
        for n in set(A.xkw) | set(B.xkw):
            if n in names:
                if (n in A.xkw) != (n in B.xkw):
                    return None    # presence of a by-name ignored extra keyword: not specified either way
                continue
            if (n in A.xkw) != (n in B.xkw):
                return False
            conds.append(veq(A.xkw[n], B.xkw[n]))
    return And(*conds)


# ------------------------------------------------------------------ symbolic process state (C17)
def sym_order(ctx, items):
    """an iteration order chosen by the solver: every permutation for up to 4 elements; for larger sets the family
    {sorted, reversed, rotated by half, odd positions first} (enough to expose a dependence on the order)"""
    items = list(items)
    if len(items) <= 4:
        out = []
        while items:
            out.append(items.pop(ctx.choice(len(items), 'ord')))
        return out
    k = ctx.choice(4, 'ordfam')
    if k == 0:
        return items
    if k == 1:
        return items[::-1]
    if k == 2:
        h = len(items) // 2
        return items[h:] + items[:h]
    return items[1::2] + items[0::2]


class SymSet(set):
    """set whose iteration order is a fresh symbolic permutation at every iteration"""

    def __iter__(self):
        items = sorted(set.__iter__(self), key=lambda x: (str(type(x)), str(x)))
        ctx = Ctx.cur
        if ctx is None or len(items) < 2:
            return iter(items)
        return iter(sym_order(ctx, items))

    def _w(name):
        def m(self, *a):
            r = getattr(set, name)(self, *a)
            return SymSet(set.__iter__(r)) if type(r) is set else (self if r is NotImplemented else r)
        return m
    union = _w('union')
    intersection = _w('intersection')
    difference = _w('difference')
    __or__ = _w('__or__')
    __and__ = _w('__and__')
    __sub__ = _w('__sub__')
    copy = _w('copy')
    del _w

    def __isub__(self, o):
        set.difference_update(self, o)
        return self

    def __ior__(self, o):
        set.update(self, o)
        return self

    def pop(self):
        for x in self:
            set.discard(self, x)
            return x
        raise KeyError('pop from an empty set')


class SymFrozenSet(frozenset):
    """frozenset whose iteration order is a fresh symbolic permutation at every iteration"""

    def __iter__(self):
        items = sorted(frozenset.__iter__(self), key=lambda x: (str(type(x)), str(x)))
        ctx = Ctx.cur
        if ctx is None or len(items) < 2 or getattr(ctx, 'concrete', lambda: False)():
            return iter(items)
        return iter(sym_order(ctx, items))


class ModuleState:
    """'a new interpreter session' in-process: every mutable module-level container of the klepto modules (memo dicts,
    'most recent call' slots, weak dictionaries, lru_cache wrappers) is put back to its import-time content"""

    def __init__(self):
        import collections
        import sys
        import weakref
        kinds = (dict, list, set, collections.deque, weakref.WeakKeyDictionary, weakref.WeakValueDictionary)
        self.saved = []
        self.lru = []
        for name, mod in list(sys.modules.items()):
            if not (name == 'klepto' or name.startswith('klepto.')) or mod is None or '.tests' in name:
                continue
            for n, v in list(vars(mod).items()):
                if n in ('__builtins__', '__annotations__', '__path__', '__all__'):
                    continue
                if isinstance(v, kinds):
                    try:
                        self.saved.append((v, list(v.items()) if hasattr(v, 'items') else list(v)))
                    except Exception:
                        pass
                elif callable(v) and hasattr(v, 'cache_clear'):
                    self.lru.append(v)

    def reset(self):
        for v, content in self.saved:
            try:
                if hasattr(v, 'items'):
                    v.clear()
                    v.update(content)
                elif isinstance(v, list):
                    v[:] = content
                else:
                    v.clear()
                    (v.update if hasattr(v, 'update') else v.extend)(content)
            except Exception:
                pass
        for f in self.lru:
            try:
                f.cache_clear()
            except Exception:
                pass


_STATE = []


def module_state():
    """snapshot taken once per worker process, before any klepto code has run in it"""
    if not _STATE:
        import klepto, klepto.safe, klepto.archives        # noqa: F401
        _STATE.append(ModuleState())
    return _STATE[0]


class Keys:
    def __init__(self, cfg):
        self.cfg = cfg
        self.state = None

    def install(self):
        undo1 = cryptoshim.install()
        undo2 = lambda: None
        self.state = module_state()
        if 'C17' in self.cfg['props']:
            import klepto._inspect as I
            import klepto.keymaps as KM
            import klepto._archives as AR
            saved = [(m, n, m.__dict__.get(n, _MISSING)) for m in (I, KM, AR) for n in ('set', 'frozenset')]
            for m in (I, KM, AR):
                m.set = SymSet
                m.frozenset = SymFrozenSet
            # sets that were built when the modules were imported (module-level constants) iterate symbolically too
            consts = []
            for m in (I, KM, AR):
                for n, v in list(vars(m).items()):
                    if type(v) is set or type(v) is frozenset:
                        consts.append((m, n, v))
                        setattr(m, n, SymSet(v) if type(v) is set else SymFrozenSet(v))

            def undo2():
                for m, n, v in consts:
                    setattr(m, n, v)
                for m, n, v in saved:
                    if v is _MISSING:
                        m.__dict__.pop(n, None)
                    else:
                        setattr(m, n, v)
        return lambda: (undo2(), undo1())

    def signature(self, label, info):
        info = info or {}
        sig = {'label': label, 'keymap_class': self.cfg['keymap'], 'kind': info.get('kind')}
        if not info.get('diagnosed'):
            sig['ignore'] = str(self.cfg.get('ignore', ()))
            sig['shape_class'] = info.get('shape_class')
        return sig

    def replay(self, assignment, label):
        """C17: the real code in fresh interpreters with different PYTHONHASHSEED; other labels: in-process twin"""
        import json, os, subprocess, sys
        if not label.startswith('C17'):
            from ksym.core import ReplayCtx
            r = ReplayCtx(assignment).run(self.fn)
            prop = label.split(':')[0]
            failed = [f for f in r.failed if f[0].split(':')[0] == prop]
            return bool(failed), {'failed': [[f[0], f[1]] for f in r.failed[:5]], 'diverged': r.diverged[:5]}
        here = os.path.dirname(os.path.dirname(os.path.abspath(__file__)))
        code = ('import sys, json; sys.path[:0] = [%r, %r]\n'
                'from harness import keys\nfrom ksym.core import ReplayCtx\n'
                'd = json.load(sys.stdin)\nh = keys.build(d["cfg"])\nh.cfg["print_key"] = True\n'
                'ReplayCtx(d["assignment"]).run(h.fn)\n') % (here, os.environ.get('KLEPTO_VERIF_REPO', '/repo'))
        outs = {}
        if self.cfg.get('scenario') in ('session', 'fname'):
            # session 1 (has computed another call before) and session 2 (fresh) are two real interpreters with different hash seeds
            for mode, seed in (('primed', 1),) + tuple(('fresh', sd) for sd in range(2, 10)):
                code2 = code.replace('h.cfg["print_key"] = True', 'h.cfg["print_key"] = %r' % mode)
                p = subprocess.run([sys.executable, '-c', code2], input=json.dumps({'cfg': self.cfg, 'assignment': assignment}),
                                   capture_output=True, text=True, env=dict(os.environ, PYTHONHASHSEED=str(seed)), timeout=120)
                outs.setdefault(p.stdout.strip() + p.stderr.strip()[-300:], []).append(mode)
            if self.cfg.get('canary'):
                return len(outs) == 1, {'canary': 'negated obligation: keys stable across sessions'}
            return len(outs) > 1, {'keys_by_session': {k[:300]: v for k, v in outs.items()}}
        if self.cfg.get('kworder'):
            p = subprocess.run([sys.executable, '-c', code], input=json.dumps({'cfg': self.cfg, 'assignment': assignment}),
                               capture_output=True, text=True, env=dict(os.environ, PYTHONHASHSEED='1'), timeout=120)
            lines = p.stdout.strip().splitlines()
            return (len(lines) == 2 and lines[0] != lines[1]), {'keys_by_keyword_order': lines[:2], 'stderr': p.stderr[-200:]}
        for seed in range(10):
            env = dict(os.environ, PYTHONHASHSEED=str(seed))
            p = subprocess.run([sys.executable, '-c', code], input=json.dumps({'cfg': self.cfg, 'assignment': assignment}),
                               capture_output=True, text=True, env=env, timeout=120)
            outs.setdefault(p.stdout.strip() + p.stderr.strip()[-300:], []).append(seed)
        if self.cfg.get('canary'):
            return len(outs) == 1, {'canary': 'negated obligation: keys stable across hash seeds'}
        return len(outs) > 1, {'keys_by_hashseed': {k[:300]: v for k, v in outs.items()}}

    def render(self, a):
        return {'shape': shape_name(self.cfg['shape']), 'ignore': self.cfg.get('ignore', ()), 'vars': a.get('vars', {})}

    def keyfun(self, f):
        import klepto
        cfg = self.cfg
        km = make_keymap(cfg['keymap'])
        spec = tuple(cfg.get('ignore', ()))
        if cfg.get('via', 'cache') == 'keygen':
            return klepto.keygen(*spec, keymap=km)(f), None
        mod = klepto.safe if cfg.get('module') == 'safe' else klepto
        if cfg.get('bare') and len(spec) == 1:
            spec = spec[0]                      # a single name / index given bare: ignore=0, ignore='a', ignore='*'
        g = mod.inf_cache(keymap=km, ignore=spec)(f)
        return g.key, g

    def fn(self, ctx):
        global POS
        cfg = self.cfg
        POS = tuple(cfg['pos']) if cfg.get('pos') else _POS0      # parameter names of this configuration
        sh = cfg['shape']
        spec = tuple(cfg.get('ignore', ()))
        props = cfg['props']
        canary = cfg.get('canary')
        defaults = {}
        for i in range(sh['npos'] - sh['ndef'], sh['npos']):
            defaults[POS[i]] = ctx.atom(ArgSort, 'D' + POS[i])
        for i in range(sh['nkwo']):
            if sh['kwodef'][i]:
                defaults[KWO[i]] = ctx.atom(ArgSort, 'D' + KWO[i])
        log = []
        method = bool(cfg.get('method'))
        if self.state is None:
            self.state = module_state()
        self.state.reset()              # every path (and every concrete replay) starts like a fresh interpreter
        if cfg.get('sibling') and defaults and not cfg.get('scenario'):
            # another function object of the same code with other default objects is used first
            d0 = {n: ctx.atom(ArgSort, 'S' + n) for n in defaults}
            f0, _ = make_function(sh, d0, [], method)
            k0, _g0 = self.keyfun(f0)
            P = min_call(ctx, sh, 'P')
            try:
                k0(*(((_Inst.of(_g0, 'f'),) if method else ()) + P.args), **P.kw)
            except (PathPruned, Inconclusive):
                raise
            except Exception:
                pass
        if cfg.get('shifted') and spec:
            # a differently shaped function with the same ignore specification is keyed first
            fs_, _ = make_function(sh, dict(defaults), [], False, lead='z')
            ks_, _gs = self.keyfun(fs_)
            Ps = min_call(ctx, sh, 'Q')
            try:
                ks_(ctx.atom(ArgSort, 'Qz'), *Ps.args, **Ps.kw)
            except (PathPruned, Inconclusive):
                raise
            except Exception:
                pass
        bound = bool(cfg.get('bound'))
        f, ns = make_function(sh, defaults, log, method or bound)
        if bound:
            # the cached callable is a bound method; the plain function of the class is keyed first (with the instance explicit)
            Cls = type('Obj', (_Inst,), {'f': f})
            inst = Cls()
            kp, _gp = self.keyfun(f)
            Pb = min_call(ctx, sh, 'R')
            try:
                kp(inst, *Pb.args, **Pb.kw)
            except (PathPruned, Inconclusive):
                raise
            except Exception:
                pass
            f = inst.f
        callsh = sh
        if cfg.get('partial') == 'extra' and sh['varkw']:
            # functools.partial(f, p=<value>) where p is not a declared parameter: it arrives in **kw unless the call overrides it
            import functools
            self._pfixed = ctx.atom(ArgSort, 'PX')
            f = functools.partial(f, **{XKW[0]: self._pfixed})
        elif cfg.get('partial') and sh['nkwo']:
            # the cached callable is functools.partial(f, k=<value>): k behaves like a parameter whose default is that value
            import functools
            kn = KWO[sh['nkwo'] - 1]
            fixed = ctx.atom(ArgSort, 'PF')
            f = functools.partial(f, **{kn: fixed})
            defaults = dict(defaults)
            defaults[kn] = fixed
            callsh = dict(sh, kwodef=list(sh['kwodef'][:-1]) + [True])
        keyf, g = self.keyfun(f)
        if defaults and cfg.get('selfprime', True) and not cfg.get('scenario') and 'C17' not in props:
            # the same function has been called before with every defaulted parameter spelled out (other values)
            P0 = min_call(ctx, sh, 'Z', explicit=callsh)
            try:
                keyf(*(((_Inst.of(g if g is not None else keyf, 'f'),) if method else ()) + P0.args), **P0.kw)
            except (PathPruned, Inconclusive):
                raise
            except Exception:
                pass
        if cfg.get('scenario') == 'fname':
            return self.fn_fname(ctx, sh, defaults, keyf)
        if cfg.get('scenario') == 'session':
            return self.fn_session(ctx, sh, defaults, keyf)
        A = gen_call(ctx, callsh, defaults, True, 'A', wit=cfg.get('wit'))
        selfA = selfB = ()
        same_inst = True
        if method:
            # the instance may belong to a subclass that overrides the method (the base's cached method is called on it)
            may_override = 'self' in spec            # only matters where klepto has to recognise the instance
            kind1 = ctx.choice(3, 'inst') if may_override else 0       # plain / subclass overriding the method / false in a boolean context
            o1 = _Inst.of(g if g is not None else keyf, 'f', kind1 == 1, kind1 == 2)
            same_inst = ctx.bool('sameinst')
            kind2 = 0 if same_inst else (ctx.choice(3, 'inst') if may_override else 0)
            o2 = o1 if same_inst else _Inst.of(g if g is not None else keyf, 'f', kind2 == 1, kind2 == 2)
            selfA, selfB = (o1,), (o2,)
        shape_class = {'varargs': sh['varargs'], 'kwonly': sh['nkwo'] > 0, 'varkw': sh['varkw'], 'defaults': sh['ndef'] > 0}
        if method:
            shape_class['method'] = True
        try:
            kA = keyf(*(selfA + A.args), **A.kw)
        except (PathPruned, Inconclusive):
            raise
        except Exception as e:
            ctx.check(False, '%s:no-exception' % props[0], {'kind': 'key raised %s' % type(e).__name__})
            return
        if cfg.get('print_key'):
            print(repr(kA))
            if cfg.get('kworder'):
                print(repr(keyf(*(selfA + A.args), **dict(reversed(list(A.kw.items()))))))
            return
        if 'C17' in props:
            kw2 = dict(reversed(list(A.kw.items()))) if cfg.get('kworder') else A.kw      # the same call, keywords in another order
            kA2 = keyf(*(selfA + A.args), **kw2)
            r = (kA == kA2)
            ok = bool(r)
            names = selected(sh, spec)[0]
            nn = len([n for n in names if n in A.named or n in A.xkw])
            diag = (not ok) and nn >= 2 and cfg['keymap'] in ('str', 'picklenf', 'md5nf', 'rawnf')
            ctx.check(ok if not canary else not ok, 'C17:stable',
                      {'kind': 'key depends on set iteration order' + (' (>= 2 ignored names, non-flat key: NULLs inserted in set order)' if diag else ''),
                       'shape_class': shape_class, 'diagnosed': diag})
            return
        B = gen_call(ctx, callsh, defaults, False, 'B', wit=cfg.get('wit'))
        if cfg.get('partial') == 'extra' and sh['varkw']:
            for C_ in (A, B):                       # what the partial pre-bound is part of the binding unless the call overrides it
                C_.xkw.setdefault(XKW[0], self._pfixed)
        kB = keyf(*(selfB + B.args), **B.kw)
        keq = bool(kA == kB)
        beq = binding_eq(sh, spec, A, B)
        if beq is None:
            return
        if method and 'self' not in spec and not same_inst:
            beq = False                 # two instances: the calls differ in a non-ignored argument (the instance)
        ign = bool(spec)
        info = {'shape_class': shape_class, 'A': A.desc, 'B': B.desc}
        if keq:
            # equal keys must come from equal (non-ignored) bindings
            lab = 'C11:discriminates' if ign else 'C10:distinct'
            if lab.split(':')[0] in props:
                kind = 'different calls share a key'
                if '**' in spec and sh['nkwo'] and not ctx.holds(beq):
                    beq2 = binding_eq(sh, tuple(spec) + tuple(KWO[:sh['nkwo']]), A, B)
                    if beq2 is not None and ctx.holds(beq2):
                        kind = "ignore='**' also drops keyword-only parameters from the key"
                        info = {'A': A.desc, 'B': B.desc, 'diagnosed': True}
                ctx.check(beq if not canary else Not(beq), lab, dict(info, kind=kind))
        else:
            lab = 'C11:merges' if ign else 'C09:canonical'
            if lab.split(':')[0] in props:
                kind = 'equivalent calls get different keys'
                kwo_ign = [KWO[i] for i in range(sh['nkwo']) if KWO[i] in spec]
                if '**' in spec and kwo_ign and any((n in A.kw) != (n in B.kw) for n in kwo_ign):
                    # the known keyword-only defect seen from the other side: a keyword-only parameter that is passed is dropped
                    # by '**', while the same parameter - ignored by name and left to its default - stays as a placeholder
                    kind = "ignore='**' also drops keyword-only parameters from the key"
                    info = {'A': A.desc, 'B': B.desc, 'diagnosed': True}
                elif cfg.get('partial') == 'extra' and '**' in spec and ((XKW[0] in A.kw) != (XKW[0] in B.kw)):
                    # known: an extra keyword pre-bound by functools.partial stays in the key unless the call overrides it
                    kind = "ignore='**' keeps an extra keyword that functools.partial pre-bound when the call does not override it"
                    info = {'A': A.desc, 'B': B.desc, 'diagnosed': True}
                if cfg['keymap'] in ('str', 'picklenf', 'md5nf'):
                    # diagnose: is the only difference the insertion order of the keyword dict in the non-flat key?
                    from klepto._inspect import _keygen
                    ra = _keygen(f, spec, *A.args, **A.kw)
                    rb = _keygen(f, spec, *B.args, **B.kw)
                    if bool(ra == rb) and list(ra[1]) != list(rb[1]):
                        kind = 'keyword order of the call leaks into the serialized non-flat key'
                        info = {'A': A.desc, 'B': B.desc, 'diagnosed': True}
                ctx.check(Not(beq) if not canary else beq, lab, dict(info, kind=kind))
        # end-to-end on a real cache: the second call is a hit exactly when the keys are equal
        if g is not None and cfg.get('endtoend'):
            n0 = len(log)
            g(*(selfA + A.args), **A.kw)
            g(*(selfB + B.args), **B.kw)
            evaluated = len(log) - n0
            if not keq:
                pass
            elif props[0] in ('C09', 'C11'):
                ctx.check(evaluated == 1, props[0] + ':second-call-hit', dict(info, kind='second equivalent call re-evaluated'))


    # ---- C17: a later interpreter session computes the same key and the same archive entry name
    def fn_session(self, ctx, sh, defaults, keyf):
        """session 1 has computed the key of another call before (one that differs only in the type of an equal value);
        session 2 is fresh (module state reset, other python hash values): the key of call A must be the same"""
        cfg = self.cfg
        A = gen_call(ctx, sh, defaults, True, 'A', wit='typed')
        if A.wit is None:
            raise PathPruned()
        prime = ctx.choice(len(WIT) + 3, 'prime')
        info = {'kind': 'key depends on what the process computed before'}

        def prime_failed():
            # session 1 has seen a call whose key could not be generated (an argument no serializer accepts)
            P = min_call(ctx, sh, 'W')
            bad = cryptoshim.Unpicklable()
            try:
                if P.args:
                    keyf(bad, *P.args[1:], **P.kw)
                else:
                    keyf(**dict(P.kw, **{(list(P.kw) or ['zz'])[0]: bad}))
            except (PathPruned, Inconclusive):
                raise
            except Exception:
                pass

        def prime_sibling():
            # session 1 has keyed another function object of the same code (other default objects) before
            d0 = {n: ctx.atom(ArgSort, 'T' + n) for n in defaults}
            f0, _ = make_function(sh, d0, [])
            k0, _g0 = self.keyfun(f0)
            P = min_call(ctx, sh, 'U')
            try:
                k0(*P.args, **P.kw)
            except (PathPruned, Inconclusive):
                raise
            except Exception:
                pass
        if cfg.get('print_key'):          # concrete replay: one real interpreter per session
            if cfg['print_key'] == 'primed' and prime == len(WIT) + 1 and defaults:
                prime_sibling()
            if cfg['print_key'] == 'primed' and prime == len(WIT) + 2:
                prime_failed()
            if cfg['print_key'] == 'primed' and prime < len(WIT) and prime != A.wit:
                same = lambda v: type(v) is type(WIT[A.wit]) and v == WIT[A.wit]
                keyf(*tuple(WIT[prime] if same(v) else v for v in A.args), **{n: (WIT[prime] if same(v) else v) for n, v in A.kw.items()})
            k = keyf(*A.args, **A.kw)
            print(repr(k), repr(self.entry_name(k)))
            return
        try:
            self.state.reset() if self.state else None
            cryptoshim.SESSION[0] = 1
            if prime == len(WIT) + 1 and defaults:
                prime_sibling()
            if prime == len(WIT) + 2:
                prime_failed()
            if prime < len(WIT) and prime != A.wit:
                pa = tuple(WIT[prime] if (type(v) is type(WIT[A.wit]) and v == WIT[A.wit]) else v for v in A.args)
                pk = {n: (WIT[prime] if (type(v) is type(WIT[A.wit]) and v == WIT[A.wit]) else v) for n, v in A.kw.items()}
                keyf(*pa, **pk)
            k1 = keyf(*A.args, **A.kw)
            n1 = self.entry_name(k1)
            self.state.reset() if self.state else None
            cryptoshim.SESSION[0] = 2
            k2 = keyf(*A.args, **A.kw)
            n2 = self.entry_name(k2)
        finally:
            cryptoshim.SESSION[0] = 0
        ok = bool(k1 == k2)
        ctx.check(ok if not cfg.get('canary') else not ok, 'C17:session', info)
        if n1 is not None:
            ctx.check(bool(n1 == n2), 'C17:entry-name', {'kind': 'directory name of the archived entry differs between sessions'})

    def entry_name(self, key):
        """where a dir_archive stores the entry of this key (real _fname)"""
        if not isinstance(key, (str, bytes, int, tuple)):
            return None
        import klepto._archives as A_
        try:
            return A_.dir_archive._fname(None, key)
        except (PathPruned, Inconclusive):
            raise
        except Exception as e:
            return 'raised %s' % type(e).__name__

    def fn_fname(self, ctx, sh, defaults, keyf):
        """concrete key witnesses (path separators, dots, blanks, pickled bytes, ints, tuples): the directory name must
        not depend on the session (python hash randomisation)"""
        import klepto._archives as A_
        wit = ('abc', 'data/run1', 'x.y', 'p q', 'a-b', 1, ('t', 2), 2.5, A_.PROTO + b'K\x01' + A_.STOP if isinstance(A_.PROTO, bytes) else 'abc',
               "('x', 'data/run1')", None)
        k = wit[ctx.choice(len(wit), 'fk')]
        if self.cfg.get('print_key'):
            print(repr(self.entry_name(k)))
            return
        try:
            cryptoshim.SESSION[0] = 1
            n1 = self.entry_name(k)
            cryptoshim.SESSION[0] = 2
            n2 = self.entry_name(k)
        finally:
            cryptoshim.SESSION[0] = 0
        ok = bool(n1 == n2)
        ctx.check(ok if not self.cfg.get('canary') else not ok, 'C17:entry-name', {'kind': 'directory name of the archived entry differs between sessions'})


class _Inst:
    """instance whose attribute named like the method is the bound decorated method (what klepto looks for to spot 'self')"""

    @classmethod
    def of(cls, g, name, override=False, falsy=False):
        C = type('Obj', (cls,), {name: g} if callable(g) and hasattr(g, '__get__') else {})
        if falsy:                      # an instance that is false in a boolean context (an empty container class)
            C = type('Empty', (C,), {'__len__': lambda self: 0})
        if override:
            def other(self, *a, **k):
                return None
            other.__name__ = name
            C = type('Sub', (C,), {name: other})
        o = C()
        return o

    def __hash__(self):
        return id(self) >> 4

    def __eq__(self, o):
        return o is self

    def __ne__(self, o):
        return o is not self


_MISSING = object()


def build(cfg):
    return Keys(cfg)


def ignore_specs(sh, tier):
    """ignore specifications mixing names, indices, '*' and '**' (<= 3 elements)"""
    names = [POS[i] for i in range(sh['npos'])] + [KWO[i] for i in range(sh['nkwo'])]
    pool = list(names[:2])
    if sh['npos']:
        pool.append(sh['npos'] - 1)
    if sh['varargs']:
        pool += ['*', sh['npos']]
    if sh['varkw']:
        pool += ['**', 'p']
    specs = []
    for r in (1, 2, 3):
        for c in itertools.combinations(pool, r):
            specs.append(c)
    if tier == 'quick':
        keep = [s for s in specs if len(s) == 1] + [s for s in specs if len(s) == 2][:4] + [s for s in specs if len(s) == 3][:1]
        return keep
    # thorough: every specification of one element, a spread of the two-element ones and two of the three-element ones
    two = [s for s in specs if len(s) == 2]
    three = [s for s in specs if len(s) == 3]
    return [s for s in specs if len(s) == 1] + two[::max(1, len(two) // 8)][:8] + three[::max(1, len(three) // 2)][:2]


KEYMAPS_Q = ('raw', 'rawsent', 'str', 'strflat', 'picklenf', 'md5nf', 'pyhash')
KEYMAPS_T = ('raw', 'rawnf', 'rawsent', 'rawtyped', 'str', 'strflat', 'pickle', 'picklenf', 'md5', 'md5nf', 'pyhash')


def thorough_shapes():
    """every shape with at most 2 positional-or-keyword and at most 1 keyword-only parameter (72), plus the quick shapes"""
    out = [sh for sh in all_shapes() if sh['npos'] <= 2 and sh['nkwo'] <= 1]
    have = {shape_name(sh) for sh in out}
    return out + [sh for sh in quick_shapes() if shape_name(sh) not in have]


def plan(prop, tier):
    q = tier == 'quick'
    shapes = quick_shapes() if q else thorough_shapes()
    cfgs = []

    def add(sh, km, **kw):
        name = 'keys/%s/%s/ignore=%s/%s' % (shape_name(sh), km, kw.get('ignore', ()), kw.get('via', 'cache'))
        if sh['ndef'] or any(sh['kwodef']):
            kw.setdefault('sibling', True)
        for flag in ('method', 'bare', 'wit', 'scenario', 'bound', 'shifted', 'partial', 'kworder'):
            if kw.get(flag):
                name += '/%s%s' % (flag, '' if kw[flag] is True else '=' + str(kw[flag]))
        if kw.get('pos'):
            name += '/names=' + ','.join(kw['pos'])
        if kw.get('canary'):
            name = 'canary:' + name
        w = (sh['npos'] + 1) * (3 if sh['varargs'] else 1) * (4 if sh['varkw'] else 1) * (2 ** sh['nkwo'])
        cfgs.append(dict(kw, name=name, shape=sh, keymap=km, props=[prop], weight=w))

    if prop in ('C09', 'C10'):
        for sh in shapes:
            for km in (KEYMAPS_Q if q else KEYMAPS_T):
                flat_nosent = km in ('raw', 'strflat', 'pickle', 'md5', 'pyhash', 'rawtyped')
                if prop == 'C10' and flat_nosent and sh['varargs']:
                    continue      # excluded by the statement: flat key without sentinel and variadic positionals
                add(sh, km, endtoend=(prop == 'C09' and km in ('raw', 'str')))
            add(sh, 'raw', via='keygen')
            # argument values that coincide with keyword names (flat keys with a sentinel, non-flat keys)
            if sh['varargs'] and sh['varkw'] and prop == 'C10':
                for km in ('rawsent', 'rawnf') if q else ('rawsent', 'rawnf', 'str', 'picklenf'):
                    add(sh, km, wit='names')
            # parameter names that collide with the names of klepto's own parameters
            if prop == 'C09' and (sh['npos'], sh['ndef'], sh['nkwo']) == (2, 1, 0):
                for hn in HOSTILE_NAMES:
                    for km in ('raw', 'str') if (q or sh['varargs']) else ('raw', 'str', 'rawnf', 'md5'):
                        add(sh, km, pos=[hn, 'b', 'c'], endtoend=(km == 'raw'))
                        add(sh, km, pos=['a', hn, 'c'])
            # methods: the instance is an argument like any other
            if sh['npos'] <= 2 and (q is False or sh['nkwo'] == 0):
                add(sh, 'rawsent', method=True)
                add(sh, 'rawsent', bound=True)          # the cached callable is a bound method
            if sh['nkwo'] and (not q or sh['npos'] <= 1):
                add(sh, 'rawsent', partial=True)        # the cached callable is functools.partial(f, k=value)
            if sh['varkw'] and sh['npos'] <= 2 and not sh['nkwo']:
                add(sh, 'rawsent', partial='extra')     # ... or partial(f, p=value) with p an extra keyword
            if sh['varargs'] and prop == 'C10' and sh['npos'] == 0 and not sh['nkwo']:
                for km in ('rawsent', 'strflat', 'raw'):
                    add(sh, km, wit='tuple')            # f((u, v)) vs f(u, v)
                for km in ('rawtyped', 'strtyped', 'md5typed'):
                    add(sh, km, wit='typedx')           # f(1) vs f(True) vs f(1.0) as extra positionals under typed keymaps
            # equal values of different types in every parameter: typed / repr-based keymaps must keep the bindings apart
            if 1 <= sh['npos'] + sh['nkwo'] <= 2 and not sh['varargs'] and not sh['varkw']:
                for km in ('rawtyped', 'strtyped', 'strflat', 'md5typed'):
                    add(sh, km, wit='typed2')
        add(quick_shapes()[2], 'raw', canary=True)
    elif prop == 'C11':
        for sh in quick_shapes():     # thorough: the same 24 shapes with more ignore specifications and a third keymap
            for spec in ignore_specs(sh, tier):
                for km in (('raw', 'strflat') if q else ('raw', 'rawnf', 'strflat')):
                    if km in ('raw', 'strflat', 'md5') and sh['varargs']:
                        km = 'rawsent'     # flat without sentinel + *args is not information-preserving (C10)
                    add(sh, km, ignore=list(spec), endtoend=(km in ('raw', 'rawsent')))
                heavy = q and sh['varargs'] and sh['varkw'] and sh['nkwo']      # the largest trees: base configuration only in the quick tier
                if not heavy:
                    add(sh, 'rawsent', ignore=list(spec), via='keygen')
                if len(spec) == 1 and not heavy:
                    add(sh, 'rawsent', ignore=list(spec), bare=True)
                if any(isinstance(x, str) and x not in ('*', '**') for x in spec) and not heavy:
                    add(sh, 'rawsent', ignore=list(spec), shifted=True)
                if '**' in spec and sh['varkw'] and sh['npos'] <= 2 and not sh['nkwo'] and len(spec) <= 2:
                    add(sh, 'rawsent', ignore=list(spec), partial='extra')
            # methods: 'self' ignored by name, alone and together with names, '*' and '**'
            if sh['npos'] <= 2 and (q is False or (sh['nkwo'] == 0 and not (sh['varargs'] and sh['varkw'] and sh['npos'] > 1))):
                mspecs = [('self',)] + [('self', POS[i]) for i in range(sh['npos'])]
                if sh['varargs']:
                    mspecs += [('self', '*'), ('*',)]
                if sh['varkw']:
                    mspecs += [('self', '**'), ('self', 'p')]
                if sh['varargs'] and sh['varkw']:
                    mspecs += [('self', '*', '**')]
                for spec in mspecs:
                    add(sh, 'rawsent', ignore=list(spec), method=True, endtoend=True)
        add(quick_shapes()[2], 'raw', ignore=['b'], canary=True)
    elif prop == 'C17':
        for sh in shapes:
            if not q and sh['nkwo'] > 1:
                continue
            specs = [()] + list(ignore_specs(sh, tier))
            for spec in specs:
                for km in (('raw', 'str', 'strflat', 'picklenf', 'md5nf') if q else ('raw', 'str', 'strflat', 'pickle', 'picklenf', 'md5nf')):
                    add(sh, km, ignore=list(spec))
            if 2 <= sh['npos'] + sh['nkwo'] <= 3 and not sh['varargs'] and not sh['varkw']:
                for km in ('rawtyped', 'strtyped', 'md5typed', 'strflat'):
                    add(sh, km, wit='typed2', kworder=True)       # flat keymaps: the order of the keywords must not matter
            if sh['npos'] or sh['nkwo']:
                for km in (('strflat', 'md5', 'rawtyped', 'sha512_224', 'pickle2') if q else ('raw', 'rawtyped', 'rawsent', 'str', 'strflat', 'strtyped', 'pickle', 'picklenf', 'md5', 'md5nf', 'sha512_224', 'pickle2')):
                    add(sh, km, scenario='session')
        add(quick_shapes()[0], 'raw', scenario='fname')
        add(quick_shapes()[2], 'str', ignore=['a', 'b'], canary=True)
    # de-duplicate names
    seen, out = set(), []
    for c in cfgs:
        if c['name'] in seen:
            continue
        seen.add(c['name'])
        out.append(c)
    return out
