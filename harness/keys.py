"""C09 / C10 / C11 / C17: cache keys over signature shapes x call spellings x keymaps x ignore specs.

Per path: one function of a concrete signature shape (its default objects are atoms), call A in a symbolic
spelling (how many arguments positional, which defaults omitted, keyword order, extras) and call B in the
canonical spelling of an independent binding.  The real key path (rounded_args -> _keygen -> keymap, reached
through f.key of a decorated function or through klepto.keygen) runs on both; the obligation is
    key(A) == key(B)   <=>   binding(A) == binding(B) outside the ignored arguments
decided by z3 per path (=> is C10/C11 discrimination, <= is C09/C11 canonicalisation).  By transitivity
through the canonical spelling this covers every pair of spellings.
C17: key(A) is computed twice under two symbolic process states (iteration order of every set built in
klepto._inspect / klepto.keymaps) and must not change.
"""
import itertools
import z3
from ksym.core import Ctx, And, Or, Not, ArgSort, ValSort, PathPruned, Inconclusive
from ksym.values import Sym
from stubs import cryptoshim
from harness.hist import make_keymap

POS = ('a', 'b', 'c')
KWO = ('k', 'm')
XKW = ('p', 'q')


def shape_name(sh):
    s = ','.join(POS[i] + ('=D' if i >= sh['npos'] - sh['ndef'] else '') for i in range(sh['npos']))
    if sh['varargs']:
        s += ',*args'
    elif sh['nkwo']:
        s += ',*'
    for i in range(sh['nkwo']):
        s += ',' + KWO[i] + ('=D' if sh['kwodef'][i] else '')
    if sh['varkw']:
        s += ',**kw'
    return 'f(%s)' % s.strip(',')


def all_shapes():
    out = []
    for npos in range(0, 4):
        for ndef in range(0, npos + 1):
            for varargs in (False, True):
                for nkwo in range(0, 3):
                    for kwodef in itertools.product((False, True), repeat=nkwo):
                        for varkw in (False, True):
                            out.append({'npos': npos, 'ndef': ndef, 'varargs': varargs, 'nkwo': nkwo,
                                        'kwodef': list(kwodef), 'varkw': varkw})
    return out


def quick_shapes():
    S = lambda npos, ndef, va=False, nk=0, kd=(), vk=False: {'npos': npos, 'ndef': ndef, 'varargs': va, 'nkwo': nk,
                                                              'kwodef': list(kd), 'varkw': vk}
    return [S(1, 0), S(2, 0), S(2, 1), S(2, 2), S(3, 1), S(3, 2), S(1, 0, True), S(2, 1, True), S(0, 0, True),
            S(1, 0, False, 0, (), True), S(2, 1, False, 0, (), True), S(1, 0, True, 0, (), True), S(2, 1, True, 0, (), True),
            S(1, 0, False, 1, (True,)), S(1, 0, False, 1, (False,)), S(2, 1, False, 2, (True, False)),
            S(1, 0, True, 1, (True,)), S(1, 0, False, 1, (True,), True), S(2, 1, True, 1, (True,), True),
            S(0, 0, False, 0, (), True), S(1, 1, True, 1, (False,), True), S(3, 3), S(3, 0, True)]


def make_function(sh, defaults, log):
    """exec a def with the given shape; default objects are taken from `defaults` by name"""
    params = []
    for i in range(sh['npos']):
        n = POS[i]
        params.append(n + ('=_D[%r]' % n if i >= sh['npos'] - sh['ndef'] else ''))
    if sh['varargs']:
        params.append('*args')
    elif sh['nkwo']:
        params.append('*')
    for i in range(sh['nkwo']):
        n = KWO[i]
        params.append(n + ('=_D[%r]' % n if sh['kwodef'][i] else ''))
    if sh['varkw']:
        params.append('**kw')
    names = [POS[i] for i in range(sh['npos'])] + [KWO[i] for i in range(sh['nkwo'])]
    body = 'def f(%s):\n    _log.append((%s))\n    return _ret()\n' % (
        ', '.join(params), ''.join('%s, ' % n for n in names) + ('args, ' if sh['varargs'] else '') + ('kw, ' if sh['varkw'] else ''))
    ns = {'_D': defaults, '_log': log, '_ret': lambda: None}
    exec(body, ns)
    return ns['f'], ns


class Call:
    __slots__ = ('args', 'kw', 'named', 'extras', 'xkw', 'desc')


def gen_call(ctx, sh, defaults, free, tag):
    """a call of the shape: symbolic spelling if free, canonical spelling otherwise"""
    c = Call()
    npos = sh['npos']
    named = {}
    args, kwl = [], []
    if free:
        p = ctx.choice(npos + 1, tag + 'p')
    else:
        p = npos
    for i in range(npos):
        n = POS[i]
        hasdef = i >= npos - sh['ndef']
        if i < p:
            v = ctx.atom(ArgSort, tag + n)
            named[n] = v
            args.append(v)
        else:
            omit = hasdef and bool(ctx.choice(2, tag + 'o'))
            if omit:
                named[n] = defaults[n]
            else:
                v = ctx.atom(ArgSort, tag + n)
                named[n] = v
                kwl.append((n, v))
    extras = ()
    if sh['varargs'] and p == npos:
        ne = ctx.choice(3, tag + 'ne')
        extras = tuple(ctx.atom(ArgSort, tag + 'e') for _ in range(ne))
        args.extend(extras)
    for i in range(sh['nkwo']):
        n = KWO[i]
        omit = sh['kwodef'][i] and free and bool(ctx.choice(2, tag + 'o'))
        if omit:
            named[n] = defaults[n]
        else:
            v = ctx.atom(ArgSort, tag + n)
            named[n] = v
            kwl.append((n, v))
    xkw = {}
    if sh['varkw']:
        sub = ctx.choice(4, tag + 'xk')
        for j, n in enumerate(XKW):
            if sub >> j & 1:
                v = ctx.atom(ArgSort, tag + n)
                xkw[n] = v
                kwl.append((n, v))
    if free and len(kwl) > 1:
        perms = list(itertools.permutations(range(len(kwl))))
        if len(perms) > 6:
            perms = [perms[0], perms[-1]] + [pp for pp in perms if pp[0] == len(kwl) - 1][:2] + [perms[len(perms) // 2]]
        order = perms[ctx.choice(len(perms), tag + 'perm')]
        kwl = [kwl[j] for j in order]
    else:
        kwl = sorted(kwl, key=lambda t: t[0])
    c.args, c.kw, c.named, c.extras, c.xkw = tuple(args), dict(kwl), named, extras, xkw
    c.desc = {'positional': len(args), 'keywords': [k for k, _ in kwl],
              'omitted': [n for n in named if named[n] is defaults.get(n)]}
    return c


def selected(sh, spec):
    """the ignored arguments, from the statement: names, indices, '*', '**'"""
    names = set(x for x in spec if isinstance(x, str) and x not in ('*', '**'))
    idx = set(x for x in spec if isinstance(x, int))
    for i in range(sh['npos']):
        if i in idx:
            names.add(POS[i])
    return names, idx, '*' in spec, '**' in spec


def binding_eq(sh, spec, A, B):
    """condition 'A and B bind equal values to every non-ignored argument'; None = neither direction demanded"""
    names, idx, star, dstar = selected(sh, spec)
    conds = []
    for n in A.named:
        if n in names:
            continue
        conds.append(A.named[n] == B.named[n])
    if not star:
        la, lb = len(A.extras), len(B.extras)
        if la != lb:
            lo, hi = min(la, lb), max(la, lb)
            if all((sh['npos'] + i) in idx for i in range(lo, hi)):
                return None        # presence of an index-ignored extra positional: not specified either way
            return False
        for i in range(la):
            if (sh['npos'] + i) in idx:
                continue
            conds.append(A.extras[i] == B.extras[i])
    if not dstar:
        for n in set(A.xkw) | set(B.xkw):
            if n in names:
                if (n in A.xkw) != (n in B.xkw):
                    return None    # presence of a by-name ignored extra keyword: not specified either way
                continue
            if (n in A.xkw) != (n in B.xkw):
                return False
            conds.append(A.xkw[n] == B.xkw[n])
    return And(*conds)


# ------------------------------------------------------------------ symbolic process state (C17)
class SymSet(set):
    """set whose iteration order is a fresh symbolic permutation at every iteration"""

    def __iter__(self):
        items = sorted(set.__iter__(self), key=lambda x: (str(type(x)), str(x)))
        ctx = Ctx.cur
        if ctx is None or len(items) < 2:
            return iter(items)
        out = []
        while items:
            out.append(items.pop(ctx.choice(len(items), 'ord')))
        return iter(out)

    def _w(name):
        def m(self, *a):
            r = getattr(set, name)(self, *a)
            return SymSet(set.__iter__(r)) if type(r) is set else (self if r is NotImplemented else r)
        return m
    union = _w('union')
    intersection = _w('intersection')
    difference = _w('difference')
    __or__ = _w('__or__')
    __and__ = _w('__and__')
    __sub__ = _w('__sub__')
    copy = _w('copy')
    del _w

    def __isub__(self, o):
        set.difference_update(self, o)
        return self

    def __ior__(self, o):
        set.update(self, o)
        return self

    def pop(self):
        for x in self:
            set.discard(self, x)
            return x
        raise KeyError('pop from an empty set')


class Keys:
    def __init__(self, cfg):
        self.cfg = cfg

    def install(self):
        undo1 = cryptoshim.install()
        undo2 = lambda: None
        if 'C17' in self.cfg['props']:
            import klepto._inspect as I
            import klepto.keymaps as KM
            saved = [(m, m.__dict__.get('set', _MISSING)) for m in (I, KM)]
            I.set = SymSet
            KM.set = SymSet

            def undo2():
                for m, v in saved:
                    if v is _MISSING:
                        m.__dict__.pop('set', None)
                    else:
                        m.set = v
        return lambda: (undo2(), undo1())

    def signature(self, label, info):
        info = info or {}
        sig = {'label': label, 'keymap_class': self.cfg['keymap'], 'kind': info.get('kind')}
        if not info.get('diagnosed'):
            sig['ignore'] = str(self.cfg.get('ignore', ()))
            sig['shape_class'] = info.get('shape_class')
        return sig

    def replay(self, assignment, label):
        """C17: the real code in fresh interpreters with different PYTHONHASHSEED; other labels: in-process twin"""
        import json, os, subprocess, sys
        if not label.startswith('C17'):
            from ksym.core import ReplayCtx
            r = ReplayCtx(assignment).run(self.fn)
            prop = label.split(':')[0]
            failed = [f for f in r.failed if f[0].split(':')[0] == prop]
            return bool(failed), {'failed': [[f[0], f[1]] for f in r.failed[:5]], 'diverged': r.diverged[:5]}
        here = os.path.dirname(os.path.dirname(os.path.abspath(__file__)))
        code = ('import sys, json; sys.path[:0] = [%r, %r]\n'
                'from harness import keys\nfrom ksym.core import ReplayCtx\n'
                'd = json.load(sys.stdin)\nh = keys.build(d["cfg"])\nh.cfg["print_key"] = True\n'
                'ReplayCtx(d["assignment"]).run(h.fn)\n') % (here, os.environ.get('KLEPTO_VERIF_REPO', '/repo'))
        outs = {}
        for seed in range(10):
            env = dict(os.environ, PYTHONHASHSEED=str(seed))
            p = subprocess.run([sys.executable, '-c', code], input=json.dumps({'cfg': self.cfg, 'assignment': assignment}),
                               capture_output=True, text=True, env=env, timeout=120)
            outs.setdefault(p.stdout.strip() + p.stderr.strip()[-300:], []).append(seed)
        if self.cfg.get('canary'):
            return len(outs) == 1, {'canary': 'negated obligation: keys stable across hash seeds'}
        return len(outs) > 1, {'keys_by_hashseed': {k[:300]: v for k, v in outs.items()}}

    def render(self, a):
        return {'shape': shape_name(self.cfg['shape']), 'ignore': self.cfg.get('ignore', ()), 'vars': a.get('vars', {})}

    def keyfun(self, f):
        import klepto
        cfg = self.cfg
        km = make_keymap(cfg['keymap'])
        spec = tuple(cfg.get('ignore', ()))
        if cfg.get('via', 'cache') == 'keygen':
            return klepto.keygen(*spec, keymap=km)(f), None
        mod = klepto.safe if cfg.get('module') == 'safe' else klepto
        g = mod.inf_cache(keymap=km, ignore=spec)(f)
        return g.key, g

    def fn(self, ctx):
        cfg = self.cfg
        sh = cfg['shape']
        spec = tuple(cfg.get('ignore', ()))
        props = cfg['props']
        canary = cfg.get('canary')
        defaults = {}
        for i in range(sh['npos'] - sh['ndef'], sh['npos']):
            defaults[POS[i]] = ctx.atom(ArgSort, 'D' + POS[i])
        for i in range(sh['nkwo']):
            if sh['kwodef'][i]:
                defaults[KWO[i]] = ctx.atom(ArgSort, 'D' + KWO[i])
        log = []
        f, ns = make_function(sh, defaults, log)
        keyf, g = self.keyfun(f)
        A = gen_call(ctx, sh, defaults, True, 'A')
        shape_class = {'varargs': sh['varargs'], 'kwonly': sh['nkwo'] > 0, 'varkw': sh['varkw'], 'defaults': sh['ndef'] > 0}
        try:
            kA = keyf(*A.args, **A.kw)
        except (PathPruned, Inconclusive):
            raise
        except Exception as e:
            ctx.check(False, '%s:no-exception' % props[0], {'kind': 'key raised %s' % type(e).__name__})
            return
        if cfg.get('print_key'):
            print(repr(kA))
            return
        if 'C17' in props:
            kA2 = keyf(*A.args, **A.kw)
            r = (kA == kA2)
            ok = bool(r)
            names = selected(sh, spec)[0]
            nn = len([n for n in names if n in A.named or n in A.xkw])
            diag = (not ok) and nn >= 2 and cfg['keymap'] in ('str', 'picklenf', 'md5nf', 'rawnf')
            ctx.check(ok if not canary else not ok, 'C17:stable',
                      {'kind': 'key depends on set iteration order' + (' (>= 2 ignored names, non-flat key: NULLs inserted in set order)' if diag else ''),
                       'shape_class': shape_class, 'diagnosed': diag})
            return
        B = gen_call(ctx, sh, defaults, False, 'B')
        kB = keyf(*B.args, **B.kw)
        keq = bool(kA == kB)
        beq = binding_eq(sh, spec, A, B)
        if beq is None:
            return
        ign = bool(spec)
        info = {'shape_class': shape_class, 'A': A.desc, 'B': B.desc}
        if keq:
            # equal keys must come from equal (non-ignored) bindings
            lab = 'C11:discriminates' if ign else 'C10:distinct'
            if lab.split(':')[0] in props:
                kind = 'different calls share a key'
                if '**' in spec and sh['nkwo'] and not ctx.holds(beq):
                    beq2 = binding_eq(sh, tuple(spec) + tuple(KWO[:sh['nkwo']]), A, B)
                    if beq2 is not None and ctx.holds(beq2):
                        kind = "ignore='**' also drops keyword-only parameters from the key"
                        info = {'A': A.desc, 'B': B.desc, 'diagnosed': True}
                ctx.check(beq if not canary else Not(beq), lab, dict(info, kind=kind))
        else:
            lab = 'C11:merges' if ign else 'C09:canonical'
            if lab.split(':')[0] in props:
                kind = 'equivalent calls get different keys'
                if cfg['keymap'] in ('str', 'picklenf', 'md5nf'):
                    # diagnose: is the only difference the insertion order of the keyword dict in the non-flat key?
                    from klepto._inspect import _keygen
                    ra = _keygen(f, spec, *A.args, **A.kw)
                    rb = _keygen(f, spec, *B.args, **B.kw)
                    if bool(ra == rb) and list(ra[1]) != list(rb[1]):
                        kind = 'keyword order of the call leaks into the serialized non-flat key'
                        info = {'A': A.desc, 'B': B.desc, 'diagnosed': True}
                ctx.check(Not(beq) if not canary else beq, lab, dict(info, kind=kind))
        # end-to-end on a real cache: the second call is a hit exactly when the keys are equal
        if g is not None and cfg.get('endtoend'):
            n0 = len(log)
            g(*A.args, **A.kw)
            g(*B.args, **B.kw)
            evaluated = len(log) - n0
            if not keq:
                pass
            elif props[0] in ('C09', 'C11'):
                ctx.check(evaluated == 1, props[0] + ':second-call-hit', dict(info, kind='second equivalent call re-evaluated'))


_MISSING = object()


def build(cfg):
    return Keys(cfg)


def ignore_specs(sh, tier):
    """ignore specifications mixing names, indices, '*' and '**' (<= 3 elements)"""
    names = [POS[i] for i in range(sh['npos'])] + [KWO[i] for i in range(sh['nkwo'])]
    pool = list(names[:2])
    if sh['npos']:
        pool.append(sh['npos'] - 1)
    if sh['varargs']:
        pool += ['*', sh['npos']]
    if sh['varkw']:
        pool += ['**', 'p']
    specs = []
    for r in (1, 2, 3):
        for c in itertools.combinations(pool, r):
            specs.append(c)
    if tier == 'quick':
        keep = [s for s in specs if len(s) == 1] + [s for s in specs if len(s) == 2][:4] + [s for s in specs if len(s) == 3][:1]
        return keep
    return specs


KEYMAPS_Q = ('raw', 'rawsent', 'str', 'strflat', 'picklenf', 'md5nf', 'pyhash')
KEYMAPS_T = ('raw', 'rawnf', 'rawsent', 'rawtyped', 'str', 'strflat', 'pickle', 'picklenf', 'md5', 'md5nf', 'pyhash')


def plan(prop, tier):
    q = tier == 'quick'
    shapes = quick_shapes() if q else all_shapes()
    cfgs = []

    def add(sh, km, **kw):
        name = 'keys/%s/%s/ignore=%s/%s' % (shape_name(sh), km, kw.get('ignore', ()), kw.get('via', 'cache'))
        if kw.get('canary'):
            name = 'canary:' + name
        w = (sh['npos'] + 1) * (3 if sh['varargs'] else 1) * (4 if sh['varkw'] else 1) * (2 ** sh['nkwo'])
        cfgs.append(dict(kw, name=name, shape=sh, keymap=km, props=[prop], weight=w))

    if prop in ('C09', 'C10'):
        for sh in shapes:
            for km in (KEYMAPS_Q if q else KEYMAPS_T):
                flat_nosent = km in ('raw', 'strflat', 'pickle', 'md5', 'pyhash', 'rawtyped')
                if prop == 'C10' and flat_nosent and sh['varargs']:
                    continue      # excluded by the statement: flat key without sentinel and variadic positionals
                add(sh, km, endtoend=(prop == 'C09' and km in ('raw', 'str')))
            add(sh, 'raw', via='keygen')
        add(quick_shapes()[2], 'raw', canary=True)
    elif prop == 'C11':
        for sh in shapes:
            for spec in ignore_specs(sh, tier):
                for km in (('raw', 'strflat') if q else ('raw', 'rawsent', 'rawnf', 'strflat', 'md5')):
                    if km in ('raw', 'strflat', 'md5') and sh['varargs']:
                        km = 'rawsent'     # flat without sentinel + *args is not information-preserving (C10)
                    add(sh, km, ignore=list(spec), endtoend=(km in ('raw', 'rawsent')))
                add(sh, 'rawsent', ignore=list(spec), via='keygen')
        add(quick_shapes()[2], 'raw', ignore=['b'], canary=True)
    elif prop == 'C17':
        for sh in shapes:
            specs = [()] + list(ignore_specs(sh, tier))
            for spec in specs:
                for km in (('raw', 'str', 'strflat', 'picklenf', 'md5nf') if q else ('raw', 'rawsent', 'str', 'strflat', 'pickle', 'picklenf', 'md5', 'md5nf')):
                    add(sh, km, ignore=list(spec))
        add(quick_shapes()[2], 'str', ignore=['a', 'b'], canary=True)
    # de-duplicate names
    seen, out = set(), []
    for c in cfgs:
        if c['name'] in seen:
            continue
        seen.add(c['name'])
        out.append(c)
    return out
