"""C13: crash atomicity of archive writes.

The real archive code runs over the model file system (stubs/posixfs.py).  The crash index is a symbolic
Int: at its c-th mutating system call the model *freezes* (every later system call of the dying process
raises a BaseException, so klepto's bare `except:` clauses cannot 'survive' the kill; completed system calls
persist - kill -9 semantics, no power loss).  Then everything of the writer is dropped and a fresh handle runs
the real readers.  For the sqlite table archive the crash points are between the real sqlite3 calls
(execute / commit) on a scratch database file; uncommitted work is rolled back by closing the connection.
"""
import os
import shutil
import tempfile
from ksym.core import Ctx, And, Or, Not, ArgSort, ValSort, PathPruned, Inconclusive
from ksym.values import REGISTRY
from stubs import posixfs, sqlshim
from harness import arch
from harness.sync import same_dict


class Frozen(BaseException):
    """the process is dead: no further system call has any effect"""


OPS = ('set_new', 'set_over', 'update2', 'del', 'pop', 'clear', 'dump', 'open', 'open_dict', 'setdefault_new')
ABSENT = 'ABSENT'


def role(entry):
    """classify a logged syscall for the crash-window part of a finding signature"""
    if entry is None:
        return 'end'
    name = entry[0]
    paths = [str(p) for p in entry[1:]]
    tags = []
    for p in paths:
        base = p.rstrip('/').split('/')[-1]
        parent = p.rstrip('/').split('/')[-2] if p.count('/') else ''
        if '.I_' in base:
            tags.append('tmp')
        elif '.I_' in parent:
            tags.append('tmp-content')
        elif base.startswith('K_'):
            tags.append('keydir')
        elif parent.startswith('K_'):
            tags.append('keydir-content')
        else:
            tags.append('target')
    return name + ':' + '->'.join(tags)


class Crash:
    def __init__(self, cfg):
        self.cfg = cfg
        self.scratch = None

    def install(self):
        undo1 = arch.installer().install()
        self.shim, undo2 = sqlshim.install()
        if self.cfg['kind'] == 'sqlfile':
            self.scratch = tempfile.mkdtemp(prefix='ksym_sql_')

        def undo():
            undo2()
            undo1()
            if self.scratch:
                shutil.rmtree(self.scratch, ignore_errors=True)
        return undo

    def signature(self, label, info):
        info = info or {}
        k = self.cfg['kind']
        fam = 'dir' if k.startswith('dir') else ('file' if k.startswith('file') else k)   # same code path, other serializer
        return {'label': label, 'archive': fam, 'op': self.cfg['op'], 'kind': info.get('kind'), 'window': info.get('window')}

    def render(self, a):
        return {'archive': self.cfg['kind'], 'op': self.cfg['op'], 'vars': a.get('vars', {})}

    # -- replay on the real file system: the writer runs in a child process that is killed at its n-th mutating os
    #    call, a second fresh process reads; all crash indices of the operation are swept once per configuration and a
    #    symbolic counterexample is confirmed when the real sweep shows the same anomaly category
    def replay(self, assignment, label):
        import json, subprocess, sys
        # sqlite: the real writer process is killed before its n-th modifying execute / commit on a real database file
        cat = label.split(':')[1]
        prior = assignment['vars'].get('nprior0', self.cfg.get('prior') or 0) if self.cfg.get('prior') is None else self.cfg['prior']
        buffered = bool(assignment['vars'].get('buffered0', False))
        key = (prior, buffered)
        if not hasattr(self, '_sweeps'):
            self._sweeps = {}
        if key not in self._sweeps:
            self._sweeps[key] = self.sweep(prior, buffered)
        hits = [(i, r) for i, r in self._sweeps[key] if cat in r.get('categories', [])]
        if self.cfg.get('canary'):
            return True, {'canary': 'symbolic canary (negated oracle); real sweep ran %d crash points' % len(self._sweeps[key])}
        return bool(hits), {'real_crash_points': len(self._sweeps[key]), 'confirming': hits[:2]}

    def sweep(self, prior, buffered=False):
        import json, subprocess, sys
        here = os.path.dirname(os.path.dirname(os.path.abspath(__file__)))
        repo = os.environ.get('KLEPTO_VERIF_REPO', '/repo')
        pre = 'import sys, json; sys.path[:0] = [%r, %r]\nfrom harness import crash\nd = json.load(sys.stdin)\n' % (here, repo)
        out = []
        for ci in range(0, 60):
            d = tempfile.mkdtemp(prefix='ksym_crash_')
            try:
                inp = json.dumps({'cfg': dict(self.cfg, buffered=buffered), 'prior': prior, 'crash': ci})
                p = subprocess.run([sys.executable, '-c', pre + 'crash.real_writer(d["cfg"], d["prior"], d["crash"])\n'],
                                   input=inp, capture_output=True, text=True, cwd=d, timeout=120)
                q = subprocess.run([sys.executable, '-c', pre + 'print(json.dumps(crash.real_reader(d["cfg"], d["prior"])))\n'],
                                   input=inp, capture_output=True, text=True, cwd=d, timeout=120)
                try:
                    res = json.loads(q.stdout.strip().splitlines()[-1])
                except Exception:
                    res = {'categories': ['reader-ok'], 'error': q.stderr[-300:]}
                res['writer_exit'] = p.returncode
                out.append((ci, res))
                if p.returncode == 0:          # the operation completed before reaching crash point ci
                    break
            finally:
                shutil.rmtree(d, ignore_errors=True)
        return out

    # ------------------------------------------------------------------
    def fn(self, ctx):
        REGISTRY.clear()
        cfg = self.cfg
        kind, op = cfg['kind'], cfg['op']
        fs = arch.installer().fresh()
        self.shim.close_all()
        if self.scratch:
            for n in os.listdir(self.scratch):
                os.unlink(os.path.join(self.scratch, n))
        a = arch.make(kind, 'memo', self.scratch)
        # prior store
        nprior = ctx.choice(3, 'nprior') if cfg.get('prior') is None else cfg['prior']
        old = {}
        for k in ('a', 'b')[:nprior]:
            v = ctx.atom(ValSort, 'v')
            a[k] = v
            old[k] = v
        if op in ('set_over', 'del', 'pop') and 'a' not in old:
            raise PathPruned()
        v2, v3 = ctx.atom(ValSort, 'n'), ctx.atom(ValSort, 'n')
        new = dict(old)
        if not kind.startswith('sql'):
            fs.buffered = ctx.bool('buffered')     # data of the operation reaches the file at write() or only at flush/close
        crash = ctx.int('crash', lo=0, hi=80)
        st = {'n': 0, 'frozen': False, 'last': None, 'missing': None}
        mut = posixfs.MUTATING

        def hook(name, args):
            if st['frozen']:
                raise Frozen()
            if name in mut or name.startswith('sql-'):
                if crash == st['n']:            # SymBool: the solver explores every crash point
                    st['frozen'] = True
                    st['missing'] = (name,) + tuple(args)
                    raise Frozen()
                st['n'] += 1
                st['last'] = (name,) + tuple(args)
        fs.hook = hook
        if kind == 'sqlfile':
            self.shim.hook = hook_sql = lambda name: hook(name, ())
        try:
            import klepto.archives as KA
            if op == 'set_new':
                new['c'] = v2
                a['c'] = v2
            elif op == 'set_over':
                new['a'] = v2
                a['a'] = v2
            elif op == 'setdefault_new':
                new['c'] = v2
                a.setdefault('c', v2)
            elif op == 'update2':
                new['a'] = v2
                new['c'] = v3
                a.update({'a': v2, 'c': v3})
            elif op == 'del':
                del new['a']
                del a['a']
            elif op == 'pop':
                del new['a']
                a.pop('a')
            elif op == 'clear':
                new = {}
                a.clear()
            elif op == 'dump':
                c = KA.cache(archive=a)
                c['a'] = v2
                c['c'] = v3
                new['a'] = v2
                new['c'] = v3
                c.dump()
            elif op == 'open':
                arch.make(kind, 'memo', self.scratch)
            elif op == 'open_dict':
                new['c'] = v2
                self.make_with_dict(kind, {'c': v2})
        except Frozen:
            pass
        except (PathPruned, Inconclusive):
            raise
        except BaseException as e:
            if not st['frozen']:
                fs.hook = None
                ctx.check(False, 'C13:writer-ok', {'kind': 'un-crashed operation raised %s' % type(e).__name__})
                return
        completed = not st['frozen']
        fs.hook = None
        self.shim.hook = None
        if completed:
            ctx.assume(crash == 80)               # one representative for "no crash"
        else:
            self.shim.close_all()                 # dying process: open sqlite transactions roll back
        window = [role(st['last']), role(st['missing'])]
        info = {'window': window if not completed else ['completed']}
        # ---- a new process opens the archive and reads
        try:
            b = arch.make(kind, 'memo', self.scratch)
            n = len(b)
            keys = list(b.keys())
            got = dict(b.items())
            for k in keys:
                b[k]
            import klepto.archives as KA
            c2 = KA.cache(archive=b)
            c2.load()
        except (PathPruned, Inconclusive):
            raise
        except Exception as e:
            ctx.check(False, 'C13:reader-ok', dict(info, kind='reader raised %s' % type(e).__name__))
            return
        if cfg.get('canary'):
            old = dict(old)
            old['a'] = v3
            new = dict(new)
            new['a'] = v3
        for k in sorted(set(old) | set(new) | set(got), key=str):
            if k not in old and k not in new:
                ctx.check(False, 'C13:no-phantom', dict(info, kind='key never stored is listed (%s)' % ('staging name' if str(k).startswith('.I_') else 'other')))
                continue
            o, w, g = old.get(k, ABSENT), new.get(k, ABSENT), got.get(k, ABSENT)
            touched = not (o is w)
            conds = []
            for allowed in ((o, w) if touched else (o,)):
                if allowed is ABSENT or g is ABSENT:
                    conds.append(allowed is g)
                else:
                    conds.append(g == allowed)
            ctx.check(Or(*conds), 'C13:old-or-new' if touched else 'C13:untouched',
                      dict(info, kind=('touched key is neither old nor new (%s)' if touched else 'untouched key changed (%s)') % ('absent' if g is ABSENT else 'other value')))
        ctx.check(n == len(got), 'C13:len', dict(info, kind='len disagrees with items'))
        ctx.check(same_dict(dict(c2), got), 'C13:load', dict(info, kind='cache.load() disagrees with items'))

    def make_with_dict(self, kind, d):
        import klepto.archives as KA
        if kind == 'file':
            return KA.file_archive('memo.pkl', d, cached=False)
        if kind == 'filejson':
            return KA.file_archive('memo.json', d, cached=False, protocol='json')
        if kind == 'dir':
            return KA.dir_archive('memo', d, cached=False)
        if kind == 'dirjson':
            return KA.dir_archive('memo', d, cached=False, protocol='json')
        if kind == 'dirfast':
            return KA.dir_archive('memo', d, cached=False, fast=True)
        if kind == 'sqlfile':
            return KA.sqltable_archive('sqlite:///%s/db.sqlite?table=memo' % self.scratch, d, cached=False)


# ---------------------------------------------------------------------- real-FS replay helpers (child processes)
def _concrete(cfg, prior):
    old = {k: 'old_' + k for k in ('a', 'b')[:prior]}
    return old, ['new_1', 'new_2']


def _apply(cfg, a, old, news, kind):
    import klepto.archives as KA
    op = cfg['op']
    new = dict(old)
    v2, v3 = news
    if op == 'set_new':
        new['c'] = v2; yield new; a['c'] = v2
    elif op == 'set_over':
        new['a'] = v2; yield new; a['a'] = v2
    elif op == 'setdefault_new':
        new['c'] = v2; yield new; a.setdefault('c', v2)
    elif op == 'update2':
        new['a'] = v2; new['c'] = v3; yield new; a.update({'a': v2, 'c': v3})
    elif op == 'del':
        del new['a']; yield new; del a['a']
    elif op == 'pop':
        del new['a']; yield new; a.pop('a')
    elif op == 'clear':
        new = {}; yield new; a.clear()
    elif op == 'dump':
        c = KA.cache(archive=a); c['a'] = v2; c['c'] = v3; new['a'] = v2; new['c'] = v3; yield new; c.dump()
    elif op == 'open':
        yield new; arch.make(kind, 'memo', os.getcwd())
    elif op == 'open_dict':
        new['c'] = v2; yield new; _mk = Crash(cfg); _mk.scratch = os.getcwd(); _mk.make_with_dict(kind, {'c': v2})


def real_writer(cfg, prior, crash):
    """child process: build the prior store, then run the operation and die at the crash-th mutating os call"""
    import os as _os
    old, news = _concrete(cfg, prior)
    kind = cfg['kind']
    if kind.startswith('sql'):
        shim, _undo = sqlshim.install()
        a = arch.make(kind, 'memo', _os.getcwd())
        for k, val in old.items():
            a[k] = val
        n = [0]

        def hook(name):
            if n[0] == crash:
                _os._exit(9)
            n[0] += 1
        shim.hook = hook
        g = _apply(cfg, a, old, news, kind)
        next(g)
        try:
            next(g)
        except StopIteration:
            pass
        _os._exit(0)
    a = arch.make(kind, 'memo')
    for k, val in old.items():
        a[k] = val
    count = [0]

    def wrap(fn):
        def w(*args, **kw):
            if count[0] == crash:
                _os._exit(9)
            count[0] += 1
            return fn(*args, **kw)
        return w
    import builtins, io
    for name in ('mkdir', 'rmdir', 'unlink', 'remove', 'rename', 'replace'):
        setattr(_os, name, wrap(getattr(_os, name)))
    real_open = builtins.open

    buffered = bool(cfg.get('buffered'))

    class WFile:
        def __init__(self, f):
            self.f = f
            self.pending = []

        def write(self, data):
            if buffered:                      # small data: stays in the userspace buffer until close
                self.pending.append(data)
                return len(data)
            return self._write(data)

        def _write(self, data):
            if count[0] == crash:
                self.f.flush(); _os._exit(9)
            count[0] += 1
            # two-chunk model: first half, (crash point), second half
            h = max(1, len(data) // 2)
            self.f.write(data[:h]); self.f.flush()
            if count[0] == crash:
                _os._exit(9)
            count[0] += 1
            return self.f.write(data[h:]) + h

        def __enter__(self):
            return self

        def __exit__(self, *a):
            self.close()

        def flush(self):
            for data in self.pending:
                self._write(data)
            self.pending = []
            self.f.flush()

        def close(self):
            for data in self.pending:
                self._write(data)
            self.pending = []
            if count[0] == crash:
                self.f.flush(); _os._exit(9)
            count[0] += 1
            self.f.close()

        def __getattr__(self, n):
            return getattr(self.f, n)

    def open_(p, mode='r', *a, **k):
        if 'w' in mode:
            if count[0] == crash:
                _os._exit(9)
            count[0] += 1
            return WFile(real_open(p, mode, *a, **k))
        return real_open(p, mode, *a, **k)
    import klepto._archives as A
    A.open = open_
    g = _apply(cfg, a, old, news, kind)
    next(g)
    try:
        next(g)
    except StopIteration:
        pass
    _os._exit(0)


def real_reader(cfg, prior):
    import klepto.archives as KA
    old, news = _concrete(cfg, prior)
    kind = cfg['kind']
    g = _apply(cfg, None, old, news, kind)
    new = next(g)
    out = {'categories': [], 'detail': []}
    try:
        import os as _os
        b = arch.make(kind, 'memo', _os.getcwd())
        n = len(b)
        got = dict(b.items())
        c2 = KA.cache(archive=b)
        c2.load()
    except Exception as e:
        out['categories'].append('reader-ok')
        out['detail'].append('reader raised %s: %s' % (type(e).__name__, e))
        return out
    for k in set(old) | set(new) | set(got):
        if k not in old and k not in new:
            out['categories'].append('no-phantom')
            out['detail'].append('phantom key %r' % (k,))
            continue
        touched = old.get(k, ABSENT) != new.get(k, ABSENT)
        allowed = [d.get(k, ABSENT) for d in ((old, new) if touched else (old,))]
        if got.get(k, ABSENT) not in allowed:
            out['categories'].append('old-or-new' if touched else 'untouched')
            out['detail'].append('key %r: got %r allowed %r' % (k, got.get(k, ABSENT), allowed))
    if n != len(got):
        out['categories'].append('len')
    return out


def build(cfg):
    return Crash(cfg)


def plan(prop, tier):
    q = tier == 'quick'
    cfgs = []
    kinds = ('file', 'filejson', 'dir', 'dirjson', 'dirfast', 'sqlfile')
    for kind in kinds:
        for op in OPS:
            cfgs.append({'name': 'crash/%s/%s' % (kind, op), 'kind': kind, 'op': op, 'props': ['C13'], 'prior': None if not q else 2,
                         'weight': 3 if kind.startswith('dir') else 1})
    cfgs.append({'name': 'canary:crash/file/set_over', 'kind': 'file', 'op': 'set_over', 'props': ['C13'], 'prior': 2, 'canary': True})
    return cfgs
