"""history harness over the real cache decorators (C01 C02 C05 C06 C07 C15).

A fresh decorated function is built per path from the real classes in klepto._cache / klepto.safe and
driven through N steps.  Arguments are symbolic atoms (their equalities are what the solver explores),
the wrapped function is an uninterpreted F, maxsize is a symbolic unbounded Int, RR's random.choice is a
symbolic index.  All oracles read only public observables (results, f.info(), f.__cache__(), .archive).
"""
import random as _random
import z3
from ksym.core import Ctx, And, Or, Not, Implies, ArgSort, ValSort, PathPruned, Inconclusive
from ksym.values import Sym, SymBool, SymInt
from stubs import cryptoshim

BOUNDED = ('lfu', 'lru', 'mru', 'rr')
PERSISTENT_BACKENDS = ('file', 'dir', 'sql')
PERSISTENT_ALL = PERSISTENT_BACKENDS + ('sqlfile',)
ARG_UNIVERSE = (1, 2, 3)
ALGOS = ('no', 'inf') + BOUNDED
WITNESS = (1, 1.0, True, '1', 2)          # equal-but-differently-typed arguments (and one unrelated value)
DISTINGUISHING = ('rawtyped', 'str', 'strflat', 'pickle', 'picklenf', 'md5', 'md5nf', 'strtyped')   # keymaps that must keep 1 / 1.0 / True / '1' apart
SPECIAL_RESULTS = (None, 0)               # results a sloppy truth test or a get() default would mistake for 'nothing stored'


class UserError(Exception):
    """raised by the wrapped function on the calls the symbolic predicate FR selects"""


class Unstorable:
    """concrete replay: a result neither dill nor json nor sqlite can encode"""

    def __reduce_ex__(self, p):
        raise TypeError('cannot serialize Unstorable')


def _unencodable():
    from stubs import posixfs
    return posixfs.Unencodable()


def is_unstorable(v):
    return isinstance(v, Unstorable) or getattr(v, '__unencodable__', False)


def warg(v):
    """z3-side stand-in of an argument: atoms as they are, concrete witnesses by their index"""
    if isinstance(v, Sym):
        return v
    for i, w in enumerate(WITNESS):
        if type(w) is type(v) and w == v:
            return i
    return v


def make_keymap(name):
    from klepto.keymaps import keymap, hashmap, stringmap, picklemap
    return {
        'raw': lambda: keymap(),
        'rawtyped': lambda: keymap(typed=True),
        'rawnf': lambda: keymap(flat=False),
        'rawsent': lambda: keymap(sentinel='|'),
        'rawSENTINEL': lambda: keymap(sentinel=__import__('klepto.keymaps', fromlist=['SENTINEL']).SENTINEL),
        'pyhash': lambda: hashmap(),
        'str': lambda: stringmap(flat=False),
        'strflat': lambda: stringmap(),
        'pickle': lambda: picklemap(serializer='dill'),
        'picklenf': lambda: picklemap(flat=False, serializer='dill'),
        'pickle2': lambda: picklemap(serializer='dill', protocol=2),          # serializer options are part of the key bytes
        'md5': lambda: hashmap(algorithm='md5'),
        'md5nf': lambda: hashmap(flat=False, algorithm='md5'),
        'strtyped': lambda: stringmap(typed=True),
        'md5typed': lambda: hashmap(typed=True, algorithm='md5'),
        'sha512_224': lambda: hashmap(algorithm='sha512_224'),       # a digest hashlib only offers through hashlib.new()
        'chain': lambda: stringmap() + hashmap(algorithm='md5'),            # composed keymaps: encode with the first, then the second
        'chainnf': lambda: picklemap(flat=False, serializer='dill') + hashmap(flat=False, algorithm='md5'),
        'default': lambda: None,
    }[name]()


def sym_choice(seq):
    seq = list(seq)
    return seq[Ctx.cur.choice(len(seq), 'rr')]


def eq_all(xs, ys):
    if len(xs) != len(ys):
        return False
    return And(*[((x == y) if isinstance(x, Sym) or isinstance(y, Sym) else (type(x) is type(y) and x == y)) for x, y in zip(xs, ys)])


class Hist:
    def __init__(self, cfg):
        self.cfg = cfg

    # ------------------------------------------------------------------ stubs
    def install(self):
        undo1 = cryptoshim.install()
        saved = _random.choice
        _random.choice = sym_choice
        undo2 = lambda: None
        self.scratch = None
        if self.cfg['backend'] in PERSISTENT_ALL:
            from harness import arch
            from stubs import sqlshim
            u_fs = arch.installer().install()
            self.shim, u_sql = sqlshim.install()
            if self.cfg['backend'] == 'sqlfile':
                import tempfile
                self.scratch = tempfile.mkdtemp(prefix='ksym_sql_')

            def undo2():
                import shutil
                u_sql()
                u_fs()
                if self.scratch:
                    shutil.rmtree(self.scratch, ignore_errors=True)

        def undo():
            _random.choice = saved
            undo2()
            undo1()
        return undo

    def replay(self, assignment, label):
        """real code on plain values; persistent backends on the real file system in a scratch directory"""
        import os, shutil, tempfile
        from ksym.core import ReplayCtx
        from stubs import sqlshim
        saved = _random.choice
        _random.choice = sym_choice      # RR's victim = the model's choice (a possible outcome of random.choice)
        d = tempfile.mkdtemp(prefix='ksym_replay_')
        cwd = os.getcwd()
        shim, undo = sqlshim.install()   # only marshals the concrete stand-ins of atoms into sqlite values
        self.shim = shim
        self.scratch = d
        try:
            os.chdir(d)
            r = ReplayCtx(assignment).run(self.fn)
        finally:
            os.chdir(cwd)
            undo()
            _random.choice = saved
            shutil.rmtree(d, ignore_errors=True)
        prop = label.split(':')[0]
        failed = [f for f in r.failed if f[0].split(':')[0] == prop]
        return bool(failed), {'failed': [[f[0], f[1]] for f in r.failed[:5]], 'diverged': r.diverged[:5]}

    def signature(self, label, info):
        info = info or {}
        sig = {'label': label, 'module': self.cfg['module'], 'algo': self.cfg['algo'],
               'scenario': self.cfg.get('scenario', 'hist')}
        for k in ('kind', 'exc', 'how'):
            if k in info:
                sig[k] = info[k]
        return sig

    def render(self, a):
        return {'vars': a.get('vars', {}), 'F': a.get('apps', [])[:12]}

    # ------------------------------------------------------------------ construction helpers
    def _module(self):
        import klepto
        import klepto.safe
        return klepto.safe if self.cfg['module'] == 'safe' else klepto

    def _backend(self):
        import klepto.archives as KA
        b = self.cfg['backend']
        if b == 'none':
            return None
        if b == 'dict':
            return {}
        if b == 'null':
            return KA.null_archive('n', cached=True)
        if b == 'cached_dict':
            return KA.dict_archive('a', cached=True)
        if b == 'direct':
            return KA.dict_archive('a', cached=False)
        if b == 'file':
            return KA.file_archive('memo.pkl', cached=True)
        if b == 'dir':
            return KA.dir_archive('memo', cached=True)
        if b == 'sql':
            return KA.sqltable_archive('sqlite:///:memory:?table=memo', cached=True)
        if b == 'sqlfile':
            return KA.sqltable_archive('sqlite:///%s/db.sqlite?table=memo' % self.scratch, cached=True)
        raise ValueError(b)

    def _decorate(self, ctx, f, cache, maxsize):
        cfg = self.cfg
        K = self._module()
        dec = getattr(K, cfg['algo'] + '_cache')
        kw = {'cache': cache, 'purge': cfg.get('purge', False)}
        km = make_keymap(cfg.get('keymap', 'raw'))
        if km is not None:
            kw['keymap'] = km
        if cfg.get('ignore') is not None:
            kw['ignore'] = cfg['ignore']
        if cfg['algo'] in BOUNDED:
            if cfg.get('maxsize_positional'):
                return dec(maxsize, **kw)(f)
            kw['maxsize'] = maxsize
        return dec(**kw)(f)

    # ------------------------------------------------------------------ the harness body
    def fn(self, ctx):
        cfg = self.cfg
        props = set(cfg['props'])
        canary = cfg.get('canary')
        algo = cfg['algo']
        evals = []
        from harness.keys import module_state
        module_state().reset()           # every path starts like a fresh interpreter (module-level memos of klepto emptied)
        if cfg['backend'] in PERSISTENT_ALL and not ctx.concrete():
            from harness import arch
            import os
            arch.installer().fresh()
            self.shim.close_all()
            if self.scratch:
                for n in os.listdir(self.scratch):
                    os.unlink(os.path.join(self.scratch, n))
        shape = cfg.get('shape', 'x')
        special, raises = cfg.get('special'), cfg.get('raises')
        fname = 'F' if shape == 'x' else 'F2'

        unstorable = cfg.get('unstorable')
        bad = {}

        def F(b):
            """the deterministic function under memoization: an uninterpreted function of the bound arguments
            (optionally returning None / 0 - or a value no archive can encode - for the arguments an uninterpreted tag selects)"""
            z = [warg(v) for v in b]
            if unstorable and ctx.apply_pred(fname + 'U', z):
                return bad.setdefault(tuple(z), Unstorable() if ctx.concrete() else _unencodable())
            if special:
                t = ctx.apply_tag(fname + 'T', z, len(SPECIAL_RESULTS) + 1)
                if t:
                    return SPECIAL_RESULTS[t - 1]
            return ctx.apply(fname, z)

        recursive = cfg.get('recursive')
        box = {'g': None, 'depth': 0, 'inner': 0}

        def body(b):
            evals.append(b)
            if raises and ctx.apply_pred(fname + 'R', [warg(v) for v in b]):
                raise UserError(len(evals))
            if recursive and box['depth'] < recursive and ctx.apply_pred(fname + 'REC', [warg(v) for v in b]):
                # memoized recursion: the function first asks the decorated function for the result of a sub-problem
                # (a deterministic function CH of its own argument)
                child = ctx.apply(fname + 'CH', [warg(v) for v in b], ArgSort)
                box['depth'] += 1
                try:
                    sub = box['g'](child)
                finally:
                    box['depth'] -= 1
                box['inner'] += 1
                ctx.check(sub == F((child,)), 'C01:value', {'kind': 'wrong result', 'from': 'recursive call'})
            return F(b)
        if shape == 'x':
            def f(x):
                return body((x,))
        else:
            D = ctx.atom(ArgSort, 'd')

            def mk(dv, bodyfn):
                def f(x, y=dv):           # every function made here shares one code object (as closures from one def do)
                    return bodyfn((x, y))
                return f
            if cfg.get('sibling', True):
                # a sibling of the same code with another default has its own cache and is used first
                D0 = ctx.atom(ArgSort, 'd')
                g0 = self._decorate(ctx, mk(D0, lambda b: ctx.apply('F2', [warg(v) for v in b])), None if cfg['backend'] == 'none' else {}, 3 if algo in BOUNDED else None)
                g0(ctx.atom(ArgSort, 'x'))
            f = mk(D, body)
        # maxsize
        ms = cfg.get('maxsize', 'sym')
        if algo == 'no':
            maxsize = 0
        elif algo == 'inf':
            maxsize = None
        elif ms == 'sym':
            maxsize = ctx.int('maxsize', lo=1)
        elif ms == 'sym0':                       # C05-A: the 0 / >=1 dispatch is itself a solver decision
            maxsize = ctx.int('maxsize', lo=0)
        else:
            maxsize = ms
        cache = self._backend()
        g = None
        try:
            g = self._decorate(ctx, f, cache, maxsize)
        except (PathPruned, Inconclusive):
            raise
        except Exception as e:
            ctx.check(False, '%s:constructible' % cfg['props'][0], {'kind': 'decorator raised', 'exc': type(e).__name__,
                                                                     'how': 'positional' if cfg.get('maxsize_positional') else 'keyword'})
            return
        box['g'] = g
        st = _State(ctx, cfg, g, f, F, evals, maxsize, props, canary)
        st.hist = self
        st.box = box
        # optional pre-population through the archive + bulk load (C05)
        npre = cfg.get('preload', 0)
        if npre:
            k = ctx.choice(npre + 1, 'npre')
            c = g.__cache__()
            for i in range(k):
                x = ctx.atom(ArgSort, 'p')
                c.archive[g.key(x)] = F((x,))
            g.load()
        N = cfg['N']
        mgmt = cfg.get('ops') == 'mgmt'
        alphabet = ('call', 'dump', 'load', 'clear', 'clear_keep', 'off', 'on', 'swap')     # (loadk: only in the prefetch script)
        fixed = cfg.get('pattern')           # compaction histories: step i re-uses atom pattern[i] (None = fresh)
        atoms = []
        script = cfg.get('script')           # a fixed sequence of operations (named scenarios); arguments stay symbolic
        if cfg.get('alphabet'):
            alphabet = tuple(cfg['alphabet'])
        for i in range(N):
            if script is not None:
                op = script[i]
            else:
                op = alphabet[ctx.choice(len(alphabet), 'op')] if mgmt else 'call'
            if op == 'call':
                if cfg['backend'] in PERSISTENT_ALL:
                    x = ARG_UNIVERSE[ctx.choice(len(ARG_UNIVERSE), 'xi')]     # keys become file names / SQL parameters
                elif cfg.get('args') == 'witness':
                    x = WITNESS[ctx.choice(len(WITNESS), 'wi')]
                else:
                    x = ctx.atom(ArgSort, 'x')
                if fixed is not None and i < len(fixed) and fixed[i] is not None:
                    ctx.assume(x == atoms[fixed[i]])
                atoms.append(x)
                if not st.call(i, x):
                    return
            elif op == 'loadk':
                # keyed prefetch f.load(k1, k2): one key of an argument seen before (if any), one that the archive cannot hold
                ks = [g.key(atoms[ctx.choice(len(atoms), 'lk')])] if atoms else []
                ks.append(g.key(ctx.atom(ArgSort, 'x') if cfg['backend'] not in PERSISTENT_ALL else 99))
                st.mgmt(i, op, ks)
            else:
                st.mgmt(i, op)
            if cfg.get('second') and i == cfg['second'] - 1:
                st = st.second_instance(self)
        return


class _State:
    """ground-truth bookkeeping of one decorated function, from public observables only"""

    def __init__(self, ctx, cfg, g, f, F, evals, maxsize, props, canary):
        self.ctx, self.cfg, self.g, self.f, self.F, self.evals = ctx, cfg, g, f, F, evals
        self.maxsize, self.props, self.canary = maxsize, props, canary
        self.algo = cfg['algo']
        self.purge = cfg.get('purge', False) or self.algo == 'no'
        self.hit = self.miss = self.load = 0
        self.calls = 0
        self.lossless = cfg['backend'] in ('cached_dict',) + PERSISTENT_ALL
        self.reps = []           # representative key per key class
        self.last_use = {}       # class id -> step
        self.count = {}          # class id -> uses since it entered memory
        self.ever = []           # bound argument tuples evaluated so far
        self.tracked = True      # recency/frequency ground truth valid
        self.unknown = set()     # key classes that became resident through load(): no use record is known for them
        if cfg.get('preload'):
            self.tracked = False

    # -- observables
    def snap(self):
        c = self.g.__cache__()
        mem = dict(c)
        a = c.archive
        if self.cfg.get('fresh_reader') and a is not c and c.archived():
            # what another process sees: a new handle (for sqlite a new connection) on the same store
            from harness import arch as _arch
            b = _arch.make({'file': 'file', 'dir': 'dir', 'sqlfile': 'sqlfile'}[self.cfg['backend']], 'memo', self.hist.scratch)
            return mem, dict(b.items())
        arch = dict(a.items()) if (a is not c and c.archived()) else {}
        return mem, arch

    def cid(self, k):
        for i, rep in enumerate(self.reps):
            if rep == k:
                return i
        self.reps.append(k)
        return len(self.reps) - 1

    def spell(self, x, y):
        """a symbolic choice of call spelling for shape f(x, y=D)"""
        ctx = self.ctx
        s = ctx.choice(5, 'sp')
        if s == 0:
            return (x, y), {}
        if s == 1:
            return (x,), {'y': y}
        if s == 2:
            return (), {'x': x, 'y': y}
        if s == 3:
            return (), {'y': y, 'x': x}
        return None  # default omitted: handled by caller

    def call(self, i, x):
        ctx, g, props = self.ctx, self.g, self.props
        P = self.cfg['props'][0]
        args, kw = (x,), {}
        bound = (x,)
        if self.cfg.get('shape', 'x') == 'xy':
            y = ctx.atom(ArgSort, 'y')
            sp = self.spell(x, y)
            if sp is None:
                D = self.f.__defaults__[0]
                args, kw, bound = (x,), {}, (x, D)
            else:
                (args, kw), bound = sp, (x, y)
        try:
            kb = g.key(*args, **kw)
            mem_b, arch_b = self.snap()
            in_mem = kb in mem_b
            in_arch = (not in_mem) and (kb in arch_b)
            n_before = len(self.evals)
            info_b = g.info()
            failed = None
            try:
                r = g(*args, **kw)
            except UserError as e:
                failed = e
            mem_a, arch_a = self.snap()
            info_a = g.info()
        except (PathPruned, Inconclusive):
            raise
        except Exception as e:
            if self.cfg.get('unstorable') and (any(is_unstorable(v) for v in mem_b.values()) or is_unstorable(self.F(bound))):
                # an archive refused a value it cannot encode: the call may fail, but nothing that was stored may get lost
                mem_a, arch_a = self.snap()
                for k, v in mem_b.items():
                    # (a value no archive can hold can only stay in memory: it must not vanish either)
                    ok = ((k in mem_a) and (mem_a[k] is v or mem_a[k] == v)) or ((k in arch_a) and (arch_a[k] == v))
                    ctx.check(ok, 'C07:refused-write-loses-nothing', {'kind': 'an entry was dropped from memory although its archive write failed'})
                for k, v in arch_b.items():
                    ctx.check((k in arch_a) and (arch_a[k] == v), 'C07:archive-monotone', {'kind': 'archived entry changed or removed'})
                return False      # the history ends here: what a cache does after an archive refused a value is not specified
            ctx.check(False, '%s:no-exception' % P, {'kind': 'call raised', 'exc': type(e).__name__})
            return False
        n_ev = len(self.evals) - n_before
        if failed is not None:
            return self.failed_call(failed, n_ev, in_mem, in_arch, mem_b, mem_a, arch_b, arch_a, info_a)
        self.calls += 1
        evaluated = n_ev > 0
        expect = self.F(bound)
        if self.cfg.get('recursive'):
            # nested calls happened inside this one: only the obligations that do not need per-call bookkeeping
            inner = self.box['inner']
            self.box['inner'] = 0
            self.calls += inner
            if 'C01' in props:
                ctx.check(r == expect, 'C01:value', {'kind': 'wrong result', 'from': 'memory' if in_mem else ('archive' if in_arch else 'computed')})
            if 'C02' in props:
                ctx.check(Implies(in_mem or in_arch, n_ev == 0) if isinstance(in_mem, bool) else True, 'C02:iff', {'kind': 'evaluated although a result was stored'})
            if 'C05' in props:
                self.check_capacity(mem_b, mem_a, True)
            if 'C15' in props:
                ctx.check(info_a.hit + info_a.miss + info_a.load == self.calls, 'C15:sum', {'kind': 'hit+miss+load != completed calls (recursive)'})
                ctx.check(info_a.size == len(mem_a), 'C15:size', {'kind': 'size'})
                ctx.check(info_a.miss - info_b.miss == n_ev, 'C15:counters', {'kind': 'miss does not count the evaluations of a recursive call', 'got': '', 'want': ''})
            return True
        if 'C01' in props:
            ok = (r == expect) if not self.canary else (r != expect)
            ctx.check(ok, 'C01:value', {'kind': 'wrong result', 'from': 'memory' if in_mem else ('archive' if in_arch else 'computed')})
        if 'C02' in props:
            want = (not in_mem) and (not in_arch)
            if self.canary:
                want = not want
            ctx.check(evaluated == want, 'C02:iff', {'kind': 'evaluated=%s in_mem=%s in_arch=%s' % (evaluated, in_mem, in_arch)})
            ctx.check(n_ev <= 1, 'C02:once', {'kind': 'evaluated %d times' % n_ev})
            if evaluated:
                ctx.check(eq_all(self.evals[-1], bound), 'C02:args', {'kind': 'evaluated on other arguments'})
                if self.lossless:
                    for e, _k in self.ever:
                        ctx.check(Not(eq_all(e, bound)), 'C02:distinct', {'kind': 're-evaluated a key whose result was still stored'})
        if evaluated:
            self.ever.append((bound, kb))
        # ground-truth classification
        if self.algo == 'no':
            cls = 'load' if (in_arch or in_mem) else 'miss'     # 'for the non-caching decorator: every retrieved result'
        else:
            cls = 'hit' if in_mem else ('load' if in_arch else 'miss')
        setattr(self, cls, getattr(self, cls) + 1)
        if 'C15' in props:
            self.check_info(info_a, mem_a, 'call')
        if 'C05' in props:
            self.check_capacity(mem_b, mem_a, in_mem)
        if 'C06' in props or 'C07' in props:
            self.check_eviction(i, kb, mem_b, mem_a, arch_b, arch_a, in_mem)
        return True

    def failed_call(self, err, n_ev, in_mem, in_arch, mem_b, mem_a, arch_b, arch_a, info_a):
        """the wrapped function raised (symbolic predicate FR): nothing may be recorded, evicted, counted or lost"""
        ctx, props = self.ctx, self.props
        same_mem = len(mem_a) == len(mem_b) and all((k in mem_a) and (mem_a[k] == v) for k, v in mem_b.items())
        same_arch = len(arch_a) == len(arch_b) and all((k in arch_a) and (arch_a[k] == v) for k, v in arch_b.items())
        if 'C02' in props:
            ctx.check(n_ev == 1, 'C02:once', {'kind': 'failing call evaluated %d times' % n_ev})
        if 'C15' in props:
            self.check_info(info_a, mem_a, 'failing call')
        if 'C05' in props:
            self.check_capacity(mem_b, mem_a, True)
        if 'C06' in props:
            ctx.check(same_mem, 'C06:failed-call-keeps', {'kind': 'a failing call changed the resident set'})
        if 'C07' in props:
            ctx.check(same_mem and same_arch, 'C07:failed-call-keeps', {'kind': 'a failing call changed memory or archive'})
        if 'C01' in props:
            ctx.check(same_mem and same_arch, 'C01:failed-call-stores-nothing', {'kind': 'a failing call changed memory or archive'})
        return True

    # -- C15
    def check_info(self, info, mem, what):
        ctx = self.ctx
        want = (self.hit, self.miss, self.load)
        got = (info.hit, info.miss, info.load)
        ok = got == want
        if self.canary:
            ok = not ok
        ctx.check(ok, 'C15:counters', {'kind': 'counters after %s' % what, 'got': str(got), 'want': str(want)})
        ctx.check(info.hit + info.miss + info.load == self.calls, 'C15:sum', {'kind': 'hit+miss+load != calls'})
        ctx.check(info.size == len(mem), 'C15:size', {'kind': 'size'})
        ms = self.maxsize
        ctx.check((info.maxsize is None) if ms is None else (info.maxsize == ms), 'C15:maxsize', {'kind': 'maxsize'})

    # -- C05
    def check_capacity(self, mem_b, mem_a, in_mem):
        ctx, ms = self.ctx, self.maxsize
        sb, sa = len(mem_b), len(mem_a)
        if ms is None:
            ok = all(k in mem_a for k in mem_b)
            ctx.check(ok if not self.canary else not ok, 'C05:inf-keeps', {'kind': 'unbounded cache dropped an entry'})
            return
        if self.algo == 'no':
            ctx.check((sa == 0) if not self.canary else (sa != 0), 'C05:zero', {'kind': 'maxsize=0 keeps entries'})
            return
        ok = Or(sa <= ms, sa <= sb)
        if self.canary:
            ok = Not(ok)
        ctx.check(ok, 'C05:bound', {'kind': 'size %d after call, %d before' % (sa, sb)})
        c = self.g.__cache__()
        if self.purge and c.archive is not c and c.archived() and not in_mem:
            ctx.check(Implies(sb + 1 > ms, sa == 0), 'C05:purge-empties', {'kind': 'purge left entries'})

    # -- C06 / C07
    def check_eviction(self, step, kb, mem_b, mem_a, arch_b, arch_a, in_mem):
        ctx, props, ms = self.ctx, self.props, self.maxsize
        q = self.cid(kb)
        B = [self.cid(k) for k in mem_b]
        A = [self.cid(k) for k in mem_a]
        cand = B + ([q] if q not in B else [])
        removed = [c for c in cand if c not in A]
        alien = [a for a in A if a not in cand]
        if 'C07' in props:
            c = self.g.__cache__()
            archived = c.archive is not c and c.archived()
            if archived:
                for k, v in mem_b.items():
                    if k not in mem_a and not is_unstorable(v):
                        ok = (k in arch_a) and (arch_a[k] == v)
                        ctx.check(ok if not self.canary else Not(ok), 'C07:leaver-archived', {'kind': 'entry left memory without reaching the archive'})
                if (q not in B) and (q not in A) and (kb not in arch_a) and not self.cfg.get('unstorable'):
                    ctx.check(False, 'C07:new-entry-archived', {'kind': 'fresh result neither in memory nor archive'})
                for k, v in arch_b.items():
                    ok = (k in arch_a) and (arch_a[k] == v)
                    ctx.check(ok, 'C07:archive-monotone', {'kind': 'archived entry changed or removed'})
                # every result evaluated so far (and never cleared) is retrievable
                if self.lossless:
                    vals_mem = list(mem_a.values())
                    vals_arch = list(arch_a.values())
                    for e, _k in self.ever:
                        v = self.F(e)
                        if is_unstorable(v):
                            continue
                        ctx.check((v in vals_mem) or (v in vals_arch), 'C07:retrievable', {'kind': 'computed result lost'})
        if 'C06' in props and not self.tracked and not self.purge_active():
            # after a bulk load() the use records say nothing about the loaded entries: the victim is not judged,
            # but a hit still removes nothing and nothing appears from nowhere
            ctx.check(not alien, 'C06:no-alien', {'kind': 'entry appeared from nowhere'})
            if q in B:
                ctx.check(not removed, 'C06:hit-keeps', {'kind': 'hit removed an entry'})
        if 'C06' in props and self.tracked and not self.purge_active():
            lab = 'C06:%s' % self.algo
            ctx.check(not alien, 'C06:no-alien', {'kind': 'entry appeared from nowhere'})
            if q in B:
                ctx.check(not removed, 'C06:hit-keeps', {'kind': 'hit removed an entry'})
            elif ms is None:
                ctx.check(not removed, 'C06:inf', {'kind': 'unbounded cache evicted'})
            elif self.algo == 'no':
                pass
            else:
                fits = bool(len(B) + 1 <= ms)
                if fits:
                    ctx.check(not removed, lab + '-fits', {'kind': 'evicted although within bound'})
                else:
                    self.check_policy(lab, q, B, A, removed)
        # update ground truth
        for c in removed:
            self.count.pop(c, None)
            self.unknown.discard(c)
        if q in A or q in B:
            self.count[q] = self.count.get(q, 0) + 1 if q in B else 1
        self.last_use[q] = step
        if self.algo in ('lru', 'mru'):
            self.unknown.discard(q)          # used now: from here on its recency is known
        for c in list(self.count):
            if c not in A:
                self.count.pop(c, None)

    def purge_active(self):
        c = self.g.__cache__()
        return self.purge and c.archive is not c and c.archived()

    def check_policy(self, lab, q, B, A, removed):
        ctx = self.ctx
        canary = self.canary
        unk = self.unknown
        if self.algo in ('lru', 'mru') and any(c in unk for c in B):
            # a resident entry without a use record (loaded, never called): the victim is not judged
            return
        if self.algo == 'lru':
            victim = min(B, key=lambda c: self.last_use[c])
            if canary:
                victim = max(B, key=lambda c: self.last_use[c])
            ctx.check(removed == [victim], lab, {'kind': 'wrong victim'})
        elif self.algo == 'mru':
            victim = max(B, key=lambda c: self.last_use[c])
            if canary:
                victim = min(B, key=lambda c: self.last_use[c])
            ctx.check(removed == [victim], lab, {'kind': 'wrong victim'})
        elif self.algo == 'rr':
            ok = len(removed) == 1
            ctx.check(ok if not canary else not ok, lab, {'kind': 'not exactly one victim'})
        elif self.algo == 'lfu':
            cnt = dict(self.count)
            cnt[q] = 1
            known = lambda c: c in cnt and c not in unk
            ok = bool(removed) and all(cnt[v] <= cnt[s] for v in removed for s in A if known(v) and known(s))
            ctx.check(ok if not canary else not ok, lab, {'kind': 'victim used more often than a survivor'})

    # -- management operations
    def mgmt(self, i, op, keys=()):
        ctx, g = self.ctx, self.g
        P = self.cfg['props'][0]
        try:
            mem0, arch0 = self.snap()
            if op == 'dump':
                g.dump()
            elif op in ('load', 'loadk'):
                g.load(*keys)
                # entries that were resident before keep their use records; what the load brought in has none
                after = dict(g.__cache__())
                for k in after:
                    if k not in mem0:
                        self.unknown.add(self.cid(k))
            elif op in ('clear', 'clear_keep'):
                if op == 'clear':
                    g.clear()
                    self.hit = self.miss = self.load = 0
                    self.calls = 0
                else:
                    g.clear(keepstats=True)
                # results that were only in memory are gone; those that had reached the archive stay retrievable
                self.ever = [(b, k) for (b, k) in self.ever if k in arch0]
                self.count.clear()
                self.last_use.clear()
            elif op in ('off', 'on'):
                try:
                    g.archived(op == 'on')
                except ValueError:
                    pass
                self.lossless = False
            elif op == 'swap':
                # replace the archive through the wrapper's own archive(obj): results left in the old archive are out of reach
                import klepto.archives as KA
                self.nswap = getattr(self, 'nswap', 0) + 1
                try:
                    g.archive(KA.dict_archive('swapped%d' % self.nswap, cached=False))
                except (ValueError, AttributeError):
                    pass                 # an archive used directly as the cache has no archive of its own to replace
                self.lossless = False
                mem0, arch0 = self.snap()
            mem, arch = self.snap()
            info = g.info()
        except (PathPruned, Inconclusive):
            raise
        except Exception as e:
            ctx.check(False, '%s:no-exception' % P, {'kind': '%s raised' % op, 'exc': type(e).__name__})
            return
        if 'C15' in self.props:
            self.check_info(info, mem, op)
            if op in ('clear', 'clear_keep'):
                ctx.check(len(mem) == 0, 'C15:clear-empties', {'kind': 'clear left entries'})
        if 'C07' in self.props and op in ('dump', 'load', 'clear', 'clear_keep'):
            c = g.__cache__()
            if c.archive is not c and c.archived():
                for k, v in arch0.items():
                    ctx.check((k in arch) and (arch[k] == v), 'C07:archive-monotone', {'kind': '%s changed or removed an archived entry' % op})
                if op == 'dump':
                    for k, v in mem0.items():
                        ctx.check((k in arch) and (arch[k] == v), 'C07:dump-archives', {'kind': 'dump() left a cached entry out of the archive'})

    def second_instance(self, H):
        """a second decorator instance on a fresh function object sharing the first one's archive"""
        import klepto.archives as KA
        ctx, cfg = self.ctx, self.cfg
        c = self.g.__cache__()
        evals = []
        F = self.F

        def f2(x):
            evals.append((x,))
            return ctx.apply('F', [x])
        # either a new in-memory cache on the same archive (a later session) or the very same cache object (re-decoration)
        cache2 = c if cfg.get('second_same') else KA.cache(archive=c.archive)
        g2 = H._decorate(ctx, f2, cache2, self.maxsize)
        st = _State(ctx, cfg, g2, f2, F, evals, self.maxsize, self.props, self.canary)
        st.hist, st.box = getattr(self, 'hist', None), getattr(self, 'box', {'inner': 0})
        st.lossless = bool(cfg.get('second_same')) and self.lossless
        st.ever = list(self.ever) if cfg.get('second_same') else []
        st.tracked = False            # the new wrapper has no use records for what is already resident
        return st


def build(cfg):
    return Hist(cfg)


# ---------------------------------------------------------------------- plans
def _cfg(name, **kw):
    kw['name'] = name
    return kw


def plan(prop, tier):
    q = tier == 'quick'
    cfgs = []

    def add(**kw):
        kw.setdefault('props', [prop])
        if kw.get('script'):
            kw['N'] = len(kw['script'])
        name = '%s/%s-%s%s/%s/%s/%s/N%d%s' % (kw.get('scenario', 'hist'), kw['module'], kw['algo'], '+purge' if kw.get('purge') else '',
                                              kw['backend'], kw.get('keymap', 'raw'), kw.get('shape', 'x'), kw['N'],
                                              '/mgmt' if kw.get('ops') == 'mgmt' else '')
        for flag in ('special', 'raises'):
            if kw.get(flag):
                name += '/' + flag
        if kw.get('args'):
            name += '/' + kw['args']
        if kw.get('maxsize', 'sym') not in ('sym', 'sym0') and kw.get('scenario', 'hist') == 'hist':
            name += '/ms=%s' % kw['maxsize']
        if kw.get('canary'):
            name = 'canary:' + name
        kw['name'] = name
        kw.setdefault('weight', kw['N'] ** 3 * (8 if kw.get('ops') == 'mgmt' else 1) * (6 if kw['algo'] == 'rr' else 1))
        if kw['algo'] == 'rr' and kw['N'] >= 5 and not kw.get('purge') and kw['backend'] != 'direct':
            kw.setdefault('split', 3)
        cfgs.append(kw)

    mods = ('std', 'safe')
    C = 'call'
    SCRIPTS = {
        'refill': [C, C, 'clear', C, C, C],                  # overflow/purge, clear(), overflow/purge again
        'reload': [C, C, 'dump', 'clear', 'load', C, C, C],  # entries that are resident without a recorded use
        'toggle': [C, C, 'off', C, C, 'on', C, C],           # evictions while archiving is switched off
        'swap': [C, C, C, 'swap', C, C],                     # evict, reload, replace the archive, evict again
        'attach': ['swap', C, C, C],                         # the archive is attached after decoration
        'midload': [C, C, C, 'load', C, C, C],               # a bulk load() in mid-session: resident entries keep their use records
        'prefetch': [C, 'loadk', C, C, C],                   # a keyed load(k...) of keys the archive may not hold
    }

    def add_scenarios(props_raises=True):
        """extensions shared by the history properties: results None/0, failing calls, named operation scripts, bulk preload"""
        for m in mods:
            for a in ALGOS:
                purges = (False, True) if a in BOUNDED else (False,)
                for p in purges:
                    add(module=m, algo=a, purge=p, backend='cached_dict', N=3 if q else 4, special=True, raises=True)
                    if a in BOUNDED:
                        for sname, sc in SCRIPTS.items():
                            if q and sname == 'toggle':
                                continue
                            if sname == 'midload':
                                continue              # C06 only (its own plan)
                            if sname == 'prefetch':
                                if prop in ('C05', 'C15') and not p:
                                    add(module=m, algo=a, purge=p, backend='cached_dict', script=sc, maxsize=2, scenario=sname)
                                continue
                            if sname == 'attach':
                                # decorated without an archive (purge requested or not), archive attached later
                                add(module=m, algo=a, purge=p, backend='none', script=sc, scenario=sname)
                                continue
                            add(module=m, algo=a, purge=p, backend='cached_dict', script=sc, scenario=sname)
                if a in BOUNDED and prop != 'C05':
                    add(module=m, algo=a, backend='cached_dict', N=3 if (q or a == 'rr' or prop == 'C07') else 4, preload=2 if q else 3, scenario='preload')
                add(module=m, algo=a, backend='none', N=4 if q else 5, raises=True)
                if prop in ('C01', 'C05', 'C15'):
                    for b in ('none', 'cached_dict'):
                        add(module=m, algo=a, backend=b, N=2 if (q or a == 'rr') else 3, recursive=2, scenario='recursive')

    if prop in ('C01', 'C02', 'C15'):
        add_scenarios()
        for m in mods:
            for a in ALGOS:
                for km in (('rawtyped', 'str', 'md5') if q else ('rawtyped', 'str', 'strflat', 'strtyped', 'pickle', 'md5')):
                    add(module=m, algo=a, backend='cached_dict', keymap=km, N=3 if q else 4, args='witness')
        N = 5 if q else 6
        Nm = 3 if q else 4
        for m in mods:
            for a in ALGOS:
                purges = (False, True) if a in BOUNDED else (False,)
                for p in purges:
                    for b in ('none', 'cached_dict', 'direct'):
                        if p and b != 'cached_dict':
                            continue
                        kms = ('raw', 'str') if q else ('raw', 'str', 'pyhash', 'pickle', 'md5')
                        for km in kms:
                            if q and km == 'str' and b != 'cached_dict':
                                continue
                            if (not q) and km not in ('raw', 'str') and b != 'cached_dict':
                                continue
                            add(module=m, algo=a, purge=p, backend=b, keymap=km, N=N)
                    add(module=m, algo=a, purge=p, backend='cached_dict', keymap='raw', N=Nm, ops='mgmt')
                    if a in ('no', 'inf', 'lru'):
                        add(module=m, algo=a, purge=p, backend='cached_dict', keymap='raw', N=3, ops='mgmt', raises=True,
                            alphabet=('call', 'load', 'dump', 'clear'))
                    if not q:
                        add(module=m, algo=a, purge=p, backend='direct', keymap='raw', N=3, ops='mgmt')
                if prop in ('C01', 'C15'):
                    add(module=m, algo=a, backend='cached_dict', keymap='raw', shape='xy', N=2 if q else 3)
                # persistent archives behind the cache (model file system / real sqlite), concrete argument universe
                if m == 'std' or not q:
                    for b in PERSISTENT_BACKENDS:
                        add(module=m, algo=a, backend=b, keymap='strflat' if b == 'sql' else 'raw', N=3 if q else 4)
                        if a in BOUNDED and not q:
                            add(module=m, algo=a, purge=True, backend=b, keymap='strflat' if b == 'sql' else 'raw', N=4)
                        if not q and a in ('no', 'lru'):
                            add(module=m, algo=a, backend=b, keymap='strflat' if b == 'sql' else 'raw', N=3, ops='mgmt')
                if prop == 'C02':
                    add(module=m, algo=a, backend='cached_dict', keymap='raw', N=4 if q else 6, second=2 if q else 3, scenario='second')
                    if a in BOUNDED:
                        add(module=m, algo=a, backend='cached_dict', keymap='raw', N=4 if q else 6, second=2 if q else 3, second_same=True, scenario='redecorate')
        add(module='std', algo='lru', backend='cached_dict', keymap='raw', N=3, canary=True)
    elif prop == 'C05':
        N = 5 if q else 7
        for m in mods:
            for a in ALGOS:
                purges = (False, True) if a in BOUNDED else (False,)
                for p in purges:
                    for b in ('none', 'cached_dict'):
                        if p and b == 'none':
                            continue
                        add(module=m, algo=a, purge=p, backend=b, N=N)
                if a in BOUNDED:
                    add(module=m, algo=a, backend='cached_dict', N=3 if q else 4, preload=3 if q else 4, scenario='preload')
                    add(module=m, algo=a, purge=True, backend='cached_dict', N=2 if q else 3, preload=3, scenario='preload')
                    for pos in (False, True):
                        add(module=m, algo=a, backend='none', N=3, maxsize='sym0', maxsize_positional=pos, scenario='ctor')
                        add(module=m, algo=a, backend='none', N=3, maxsize=None, maxsize_positional=pos, scenario='ctor')
        add_scenarios()
        add(module='std', algo='lru', backend='none', N=3, canary=True)
    elif prop == 'C06':
        N = 5 if q else 7
        for m in mods:
            for a in BOUNDED:
                for b in ('none', 'cached_dict'):
                    add(module=m, algo=a, backend=b, N=N)
                    add(module=m, algo=a, backend=b, N=4 if q else 5, raises=True)
                # longer histories at a fixed small bound: evict-then-reload, re-entry with a stale use record
                for ms, n in (((2, 7),) if q else ((2, 9), (3, 8))):
                    if a == 'rr':
                        n -= 2
                    add(module=m, algo=a, backend='cached_dict', N=n, maxsize=ms, split=3 if n >= 8 else 0)
            add(module=m, algo='lru', backend='none', N=24, maxsize=2, pattern=[None, None] + [i % 2 for i in range(2, 21)],
                scenario='compaction2')
            for a in BOUNDED:
                # a bulk load() that fills or overfills the cache, then calls (hits on entries without a use record)
                add(module=m, algo=a, backend='cached_dict', N=3 if q else 4, preload=3, scenario='preload')
                for b in ('none', 'cached_dict'):
                    add(module=m, algo=a, backend=b, script=SCRIPTS['midload'], maxsize=2, scenario='midload')
            # LRU queue compaction: maxsize=1, 11 uses of one key, then two free calls
            add(module=m, algo='lru', backend='none', N=13, maxsize=1, pattern=[None] + [0] * 10, scenario='compaction1')
            if not q:
                add(module=m, algo='lru', backend='cached_dict', N=13, maxsize=1, pattern=[None] + [0] * 10, scenario='compaction1')
                add(module=m, algo='lru', backend='cached_dict', N=24, maxsize=2, pattern=[None, None] + [i % 2 for i in range(2, 21)],
                    scenario='compaction2')
        add(module='std', algo='lru', backend='none', N=4, canary=True)
        add(module='std', algo='mru', backend='none', N=4, canary=True)
    elif prop == 'C07':
        N = 5 if q else 6
        for m in mods:
            for a in ('no',) + BOUNDED:
                purges = (False, True) if a in BOUNDED else (False,)
                for p in purges:
                    add(module=m, algo=a, purge=p, backend='cached_dict', N=N if (q or a != 'rr') else 5)
                    if not q:
                        add(module=m, algo=a, purge=p, backend='cached_dict', keymap='str', N=5)
                    if m == 'std' or not q:
                        for b in PERSISTENT_BACKENDS:
                            add(module=m, algo=a, purge=p, backend=b, keymap='strflat' if b == 'sql' else 'raw', N=3 if q else 4, maxsize=1 if q else 'sym')
                    add(module=m, algo=a, purge=p, backend='cached_dict', N=3, ops='mgmt')
                    if a in BOUNDED:
                        add(module=m, algo=a, purge=p, backend='cached_dict', N=4 if q else (5 if a == 'rr' else 6), second=2 if q else 3, second_same=True, scenario='redecorate')
                    # what another process sees (new handle / new sqlite connection), and results an archive cannot encode
                    if m == 'std' or not q:
                        for b in ('file', 'dir', 'sqlfile'):
                            add(module=m, algo=a, purge=p, backend=b, keymap='strflat' if b == 'sqlfile' else 'raw', N=3 if q else 4,
                                maxsize=1 if q else 'sym', fresh_reader=True, unstorable=(b != 'sqlfile' or not q), scenario='outside')
        add_scenarios()
        add(module='std', algo='lru', backend='cached_dict', N=4, canary=True)
    return cfgs
