"""C03 (every archive refines a dict) and C04 (persistence across handles).

The real archive classes run over the model file system (file / dir archives) or the real sqlite3 (sql
table archive); a plain Python dict driven in lock-step is the oracle.  Pre-states are built through the
public API by a symbolic write prefix; then arbitrary operations of the mapping API with symbolic arguments.
dict / null / file archives take symbolic keys and values; dir and sql archives take keys from a small
concrete universe behind a symbolic selector (their keys become file names / SQL parameters) with symbolic
values.
"""
import os
import shutil
import tempfile
from ksym.core import Ctx, And, Or, Not, ArgSort, ValSort, PathPruned, Inconclusive
from ksym.values import Sym, REGISTRY
from stubs import posixfs, sqlshim
from harness.sync import same_dict

SYMBOLIC_KEYS = ('dict', 'null', 'file', 'filejson')
UNIVERSE = {'dir': ('a', 'c-d', 1, ('t', 2)), 'dirjson': ('a', 'c-d', 1), 'dirfast': ('a', 'b', ('t', 2)),
            'sql': ('a', 'b', 1), 'sqlfile': ('a', 'b', 1)}
PERSISTENT = ('file', 'filejson', 'dir', 'dirjson', 'dirfast', 'sqlfile')

OPS = ('set', 'getitem', 'del', 'in', 'len', 'iter', 'keys', 'values', 'items', 'get', 'get_d', 'pop', 'pop_d',
       'popitem', 'popkeys', 'popkeys_d', 'setdefault', 'setdefault_d', 'update', 'update_kw', 'clear', 'copy',
       'eq', 'set_bad')
_INST = {}


def installer():
    if 'i' not in _INST:
        _INST['i'] = posixfs.Installer()
    return _INST['i']


def make(kind, name, scratch=None):
    import klepto.archives as KA
    if '/' in name and kind in ('file', 'filejson', 'dir', 'dirjson', 'dirfast'):
        import klepto._archives as A_
        try:
            A_.os.makedirs(A_.os.path.dirname(name))        # (model file system while the stubs are installed)
        except OSError:
            pass
    if '/' in name and kind == 'sqlfile':
        return KA.sqltable_archive('sqlite:///%s/db2.sqlite?table=%s' % (scratch, name.split('/')[-1]), cached=False)
    if kind == 'dict':
        return KA.dict_archive(name, cached=False)
    if kind == 'null':
        return KA.null_archive(name, cached=False)
    if kind == 'file':
        return KA.file_archive(name + '.pkl', cached=False)
    if kind == 'filejson':
        return KA.file_archive(name + '.json', cached=False, protocol='json')
    if kind == 'dir':
        return KA.dir_archive(name, cached=False)
    if kind == 'dirjson':
        return KA.dir_archive(name, cached=False, protocol='json')
    if kind == 'dirfast':
        return KA.dir_archive(name, cached=False, fast=True)
    if kind == 'sql':
        return KA.sqltable_archive('sqlite:///:memory:?table=%s' % name, cached=False)
    if kind == 'sqlfile':
        return KA.sqltable_archive('sqlite:///%s/db.sqlite?table=%s' % (scratch, name), cached=False)
    raise ValueError(kind)


def keys_same(real, want):
    real, want = list(real), list(want)
    if len(real) != len(want):
        return False
    return all(k in real for k in want)


class Arch:
    def __init__(self, cfg):
        self.cfg = cfg
        self.scratch = None

    def install(self):
        undo1 = installer().install()
        shim, undo2 = sqlshim.install()
        self.shim = shim
        if self.cfg['kind'] == 'sqlfile':
            self.scratch = tempfile.mkdtemp(prefix='ksym_sql_')

        def undo():
            undo2()
            undo1()
            if self.scratch:
                shutil.rmtree(self.scratch, ignore_errors=True)
        return undo

    def signature(self, label, info):
        info = info or {}
        sig = {'label': label, 'archive': self.cfg['kind'], 'op': info.get('op'), 'kind': info.get('kind')}
        if 'pre' in info:
            sig['pre'] = info['pre']
        return sig

    def render(self, a):
        v = dict(a.get('vars', {}))
        for k in list(v):
            if k.startswith('op') and isinstance(v[k], int) and v[k] < len(OPS):
                v[k] = OPS[v[k]]
        return {'archive': self.cfg['kind'], 'vars': v}

    # replay: the real archives on the real file system in a scratch directory
    def replay(self, assignment, label):
        from ksym.core import ReplayCtx
        d = tempfile.mkdtemp(prefix='ksym_replay_')
        cwd = os.getcwd()
        self.scratch = d
        shim, undo = sqlshim.install()       # only marshals the concrete stand-ins of atoms into sqlite values
        try:
            os.chdir(d)
            r = ReplayCtx(assignment).run(self.fn)
        finally:
            os.chdir(cwd)
            undo()
            shutil.rmtree(d, ignore_errors=True)
        prop = label.split(':')[0]
        failed = [f for f in r.failed if f[0].split(':')[0] == prop]
        return bool(failed), {'failed': [[f[0], f[1]] for f in r.failed[:5]], 'diverged': r.diverged[:5]}

    # ------------------------------------------------------------------ helpers
    def K(self, ctx):
        kind = self.cfg['kind']
        if kind in SYMBOLIC_KEYS:
            a = ctx.atom(ArgSort, 'k')
            return a.tag if (ctx.concrete() and 'json' in kind) else a      # real json needs json-able stand-ins
        u = UNIVERSE[kind]
        return u[ctx.choice(len(u), 'ki')]

    VALUE_WITNESSES = ('007', '1e3', '', 1.5, None, b'\x00\xff')    # what a typed column or a truth test could mangle

    def V(self, ctx):
        if self.cfg.get('valwit'):
            return self.VALUE_WITNESSES[ctx.choice(len(self.VALUE_WITNESSES), 'vw')]
        a = ctx.atom(ValSort, 'v')
        return a.tag if (ctx.concrete() and 'json' in self.cfg['kind']) else a

    def fresh_world(self, ctx):
        if not ctx.concrete():
            installer().fresh()
            self.shim.close_all()
            if self.scratch:
                for n in os.listdir(self.scratch):
                    os.unlink(os.path.join(self.scratch, n))

    def contents(self, ctx, a, D, info, prop='C03', label='contents'):
        try:
            real = dict(a.items())
            n = len(a)
        except (PathPruned, Inconclusive):
            raise
        except Exception as e:
            ctx.check(False, '%s:usable' % prop, dict(info, kind='reading the archive raised %s' % type(e).__name__))
            return False
        ok = same_dict(real, D)
        if self.cfg.get('canary') and info.get('op') == 'set':
            ok = Not(ok)
        ctx.check(ok, '%s:%s' % (prop, label), dict(info, kind='contents differ from the dict oracle'))
        ctx.check(n == len(D), '%s:len' % prop, dict(info, kind='len differs'))
        return True

    # ------------------------------------------------------------------ one operation in lock-step
    def step(self, ctx, a, D, op, others):
        kind = self.cfg['kind']
        null = kind == 'null'
        info = {'op': op}
        E = {} if null else D           # the oracle dict the operation acts on (null: a dict that discards writes)
        got = want = exc = wexc = None
        cmp = 'value'
        k = k2 = v = d = None
        if op in ('set', 'getitem', 'del', 'in', 'get', 'get_d', 'pop', 'pop_d', 'setdefault', 'setdefault_d', 'update',
                  'popkeys', 'popkeys_d', 'set_bad'):
            k = self.K(ctx)
        if op in ('popkeys', 'popkeys_d', 'update'):
            k2 = self.K(ctx)
        if op in ('set', 'update', 'update_kw'):
            v = self.V(ctx)
        if op in ('get_d', 'pop_d', 'setdefault_d', 'popkeys_d'):
            d = self.V(ctx)
        if op in ('popkeys', 'popkeys_d') and not hasattr(a, 'popkeys'):
            return True
        before = dict(D)
        try:
            if op == 'set':
                a[k] = v
            elif op == 'set_bad':
                a[k] = posixfs.Unencodable() if not ctx.concrete() else (i for i in ())
            elif op == 'getitem':
                got = a[k]
            elif op == 'del':
                del a[k]
            elif op == 'in':
                got = k in a
            elif op == 'len':
                got = len(a)
            elif op == 'iter':
                got = list(iter(a))
            elif op == 'keys':
                got = list(a.keys())
            elif op == 'values':
                got = list(a.values())
            elif op == 'items':
                got = list(a.items())
            elif op == 'get':
                got = a.get(k)
            elif op == 'get_d':
                got = a.get(k, d)
            elif op == 'pop':
                got = a.pop(k)
            elif op == 'pop_d':
                got = a.pop(k, d)
            elif op == 'popitem':
                got = a.popitem()
            elif op == 'popkeys':
                got = a.popkeys([k, k2])
            elif op == 'popkeys_d':
                got = a.popkeys([k, k2], d)
            elif op == 'setdefault':
                got = a.setdefault(k)
            elif op == 'setdefault_d':
                got = a.setdefault(k, d)
            elif op == 'update':
                a.update({k: v, k2: v})
            elif op == 'update_kw':
                a.update({}, kw1=v)
            elif op == 'clear':
                a.clear()
            elif op in ('copy', 'eq'):
                pass
        except (PathPruned, Inconclusive):
            raise
        except Exception as e:
            exc = e
        # ---- oracle
        try:
            if op == 'set':
                E[k] = v
            elif op == 'set_bad':
                if kind in ('dict',):
                    E[k] = None
                    cmp = 'stored-anything'
                elif null:
                    pass
                else:
                    wexc = 'any'
            elif op == 'getitem':
                want = E[k]
            elif op == 'del':
                del E[k]
            elif op == 'in':
                want = k in E
                cmp = 'plain'
            elif op == 'len':
                want = len(E)
                cmp = 'plain'
            elif op in ('iter', 'keys'):
                want = list(E)
                cmp = 'keys'
            elif op == 'values':
                want = list(E.values())
                cmp = 'values'
            elif op == 'items':
                want = dict(E)
                cmp = 'items'
            elif op == 'get':
                want = E.get(k)
            elif op == 'get_d':
                want = E.get(k, d)
            elif op == 'pop':
                want = E.pop(k)
            elif op == 'pop_d':
                want = E.pop(k, d)
            elif op == 'popitem':
                if not E:
                    raise KeyError('empty')
                cmp = 'popitem'
            elif op == 'popkeys':
                tmp = dict(E)
                want = [tmp.pop(x) for x in (k, k2)]
                E.clear()
                E.update(tmp)
                cmp = 'list'
            elif op == 'popkeys_d':
                want = [E.pop(x, d) for x in (k, k2)]
                cmp = 'list'
            elif op == 'setdefault':
                want = E.setdefault(k) if not null else None
            elif op == 'setdefault_d':
                want = E.setdefault(k, d) if not null else d
            elif op == 'update':
                E.update({k: v, k2: v})
            elif op == 'update_kw':
                E.update({}, kw1=v)
            elif op == 'clear':
                E.clear()
        except KeyError as e:
            wexc = KeyError
        # ---- compare outcome
        if wexc == 'any':
            ctx.check(exc is not None, 'C03:bad-value-raises', dict(info, kind='unencodable value accepted silently'))
        elif wexc is not None:
            ctx.check(isinstance(exc, wexc), 'C03:exception', dict(info, kind='expected %s, got %s' % (wexc.__name__, type(exc).__name__ if exc else 'no exception')))
        else:
            ctx.check(exc is None, 'C03:no-exception', dict(info, kind='raised %s' % type(exc).__name__))
            if exc is not None:
                return self.contents(ctx, a, D, dict(info, pre='after failed op')) and False
            if cmp == 'value':
                if op in ('getitem', 'get', 'get_d', 'pop', 'pop_d', 'setdefault', 'setdefault_d'):
                    ok = (got is want) or (got == want)
                    ctx.check(ok, 'C03:result', dict(info, kind='wrong value returned'))
            elif cmp == 'plain':
                ctx.check(got == want, 'C03:result', dict(info, kind='wrong result'))
            elif cmp == 'keys':
                ctx.check(keys_same(got, want), 'C03:result', dict(info, kind='wrong key set'))
            elif cmp == 'values':
                ok = len(got) == len(want) and all(x in got for x in want)
                ctx.check(ok, 'C03:result', dict(info, kind='wrong values'))
            elif cmp == 'items':
                ctx.check(same_dict(dict(got), want), 'C03:result', dict(info, kind='wrong items'))
            elif cmp == 'list':
                ok = len(got) == len(want) and And(*[(x is y) or (x == y) for x, y in zip(got, want)])
                ctx.check(ok, 'C03:result', dict(info, kind='wrong values returned'))
            elif cmp == 'popitem':
                pk, pv = got
                ok = (pk in E) and (E[pk] == pv)
                ctx.check(ok, 'C03:result', dict(info, kind='popitem returned a foreign item'))
                if pk in E:
                    del E[pk]
        # ---- contents after the step (a failed operation must leave them unchanged: the oracle did)
        if cmp == 'stored-anything':
            try:
                ctx.check(len(a) == len(D), 'C03:len', dict(info, kind='len differs'))
            except Exception:
                pass
            if k in D:
                del D[k]
            try:
                del a[k]
            except Exception:
                pass
            return True
        if not self.contents(ctx, a, D, info):
            return False
        # membership agrees
        if k is not None:
            ctx.check((k in a) == (k in D), 'C03:membership', dict(info, kind='membership differs'))
        # siblings untouched
        for b, DB in others:
            if not self.contents(ctx, b, DB, dict(info, pre='sibling'), label='isolation'):
                return False
        # copy / equality
        if op == 'copy':
            try:
                self.ncopy = getattr(self, 'ncopy', 0) + 1
                c = a.copy('cpy%d' % self.ncopy)       # a fresh name each time: copying onto an existing archive is not the subject
            except (PathPruned, Inconclusive):
                raise
            except Exception as e:
                ctx.check(False, 'C03:no-exception', dict(info, kind='copy raised %s' % type(e).__name__))
                return False
            DC = {} if null else dict(D)
            self.contents(ctx, c, DC, dict(info, pre='copy'), label='copy-equal')
            if not null:
                kk, vv = self.K(ctx), self.V(ctx)
                c[kk] = vv
                DC[kk] = vv
                self.contents(ctx, c, DC, dict(info, pre='copy written'), label='copy-independent')
                self.contents(ctx, a, D, dict(info, pre='original after write to copy'), label='copy-independent')
        for b, DB in (others if op == 'eq' else []):
            try:
                r = (a == b)
                nr = (a != b)
            except (PathPruned, Inconclusive):
                raise
            except Exception as e:
                ctx.check(False, 'C03:no-exception', dict(info, kind='== raised %s' % type(e).__name__))
                return False
            want_eq = same_dict(dict(D), DB) if len(D) == len(DB) else False
            r = bool(r) if not isinstance(r, bool) else r
            nr = bool(nr) if not isinstance(nr, bool) else nr
            ctx.check(want_eq if r else Not(want_eq), 'C03:equality', dict(info, kind='== does not compare contents'))
            ctx.check(r != nr, 'C03:equality', dict(info, kind='!= is not the negation of =='))
        return True

    # ------------------------------------------------------------------ harness bodies
    def fn(self, ctx):
        REGISTRY.clear()
        self.fresh_world(ctx)
        if self.cfg.get('scenario') == 'persist':
            return self.fn_persist(ctx)
        if self.cfg.get('scenario') == 'alias':
            return self.fn_alias(ctx)
        if self.cfg.get('scenario') == 'slash':
            return self.fn_slash(ctx)
        kind = self.cfg['kind']
        a = make(kind, 'memo', self.scratch)
        D = {}
        b = make(kind, 'sib', self.scratch)
        DB = {}
        if kind != 'null':
            bk = self.K(ctx) if kind in SYMBOLIC_KEYS else UNIVERSE[kind][0]
            bv = self.V(ctx)
            b[bk] = bv
            DB[bk] = bv
        others = [(b, DB)]
        if (kind in PERSISTENT or kind == 'sql') and 'eq' in (self.cfg.get('first') or ()):
            # a third archive whose *name* has the same last component (another directory / another in-memory database)
            c3 = make(kind, 'elsewhere/memo', self.scratch) if kind != 'sql' else make(kind, 'memo')
            others.append((c3, {}))
        # symbolic write prefix (pre-state through the public API)
        for i in range(self.cfg['prefix']):
            w = ctx.choice(3, 'w')
            if w == 0:
                continue
            k = self.K(ctx)
            if w == 1:
                v = self.V(ctx)
                a[k] = v
                if kind != 'null':
                    D[k] = v
            else:
                try:
                    del a[k]
                except KeyError:
                    pass
                D.pop(k, None)
        first = self.cfg.get('first')
        for i in range(self.cfg['nops']):
            if first is not None and i < len(first):
                op = first[i]
                ctx.choice(1, 'op')
            else:
                op = OPS[ctx.choice(len(OPS), 'op')]
            if not self.step(ctx, a, D, op, others):
                return

    def fn_alias(self, ctx):
        """distinct keys never alias: concrete witness pairs whose file names coincide (dir) / types differ (sql)"""
        kind = self.cfg['kind']
        a = make(kind, 'memo', self.scratch)
        pairs = (('a-b', 'a_b'), (1, '1'), ('x', 'y'))
        k1, k2 = pairs[ctx.choice(len(pairs), 'pair')]
        v1, v2 = self.V(ctx), self.V(ctx)
        a[k1] = v1
        a[k2] = v2
        D = {k1: v1, k2: v2}
        self.contents(ctx, a, D, {'op': 'set', 'pre': 'two keys %r %r' % (type(k1).__name__, type(k2).__name__)}, label='no-alias')

    def fn_slash(self, ctx):
        """a str key with a path separator: listing is a known finding, but what was stored under it must still be there"""
        kind = self.cfg['kind']
        a = make(kind, 'memo', self.scratch)
        k = ('src/main.py', 'a/b')[ctx.choice(2, 'sk')]
        v = self.V(ctx)
        info = {'op': 'set', 'pre': 'key with a path separator'}
        try:
            a[k] = v
            got = a[k]
            has = k in a
        except (PathPruned, Inconclusive):
            raise
        except Exception as e:
            ctx.check(False, 'C03:no-exception', dict(info, kind='raised %s' % type(e).__name__))
            return
        ctx.check(got == v, 'C03:result', dict(info, kind='wrong value returned'))
        ctx.check(has, 'C03:membership', dict(info, kind='membership differs'))
        b = make(kind, 'memo', self.scratch)
        try:
            ctx.check(b[k] == v, 'C04:fresh-handle', dict(info, kind='contents differ from the dict oracle'))
        except (PathPruned, Inconclusive):
            raise
        except Exception as e:
            ctx.check(False, 'C04:fresh-handle', dict(info, kind='fresh handle raised %s' % type(e).__name__))

    def fn_persist(self, ctx):
        """C04: what a fresh handle sees"""
        import dill
        kind = self.cfg['kind']
        a = make(kind, 'memo', self.scratch)
        D = {}
        early = make(kind, 'memo', self.scratch)        # a second handle opened before the writes
        boxes = []
        for i in range(self.cfg['prefix']):
            w = ctx.choice(4, 'w')
            k = self.K(ctx)
            if w == 1 and kind.startswith('sql'):
                w = 0                                    # the sqlite fallback stores basic values only (documented)
            if w == 0:
                v = self.V(ctx)
                a[k] = v
                D[k] = v
            elif w == 1:
                v = self.V(ctx)
                box = [v]
                a[k] = box                               # mutable container: the archive must keep a snapshot
                D[k] = [v]
                if ctx.bool('late'):
                    boxes.append(box)                    # mutated after all writes
                else:
                    box.append('mutated after store')    # mutated at once: later writes must not pick the change up
                    try:
                        back = a[k]                      # and a value read back is the reader's own copy
                        if type(back) is list:
                            back.append('mutated after read')
                    except (PathPruned, Inconclusive):
                        raise
                    except Exception:
                        pass
            elif w == 2:
                try:
                    del a[k]
                except KeyError:
                    pass
                D.pop(k, None)
            else:
                v = self.V(ctx)
                a.update({k: v})
                D[k] = v
        for box in boxes:
            box.append('mutated after store')
        # reader placement 'same handle'
        self.contents(ctx, a, D, {'op': 'same-handle'}, prop='C04', label='same-handle')
        hows = ('ctor', 'state', 'copy', 'pickle', 'early')
        if self.cfg.get('how'):
            how = self.cfg['how']
            ctx.choice(1, 'how')
        else:
            how = hows[ctx.choice(5, 'how')]
        info = {'op': how}
        try:
            if how == 'ctor':
                b = make(kind, 'memo', self.scratch)
            elif how == 'state':
                st = a.state
                import klepto._archives as KA_
                if kind.startswith('sql'):
                    b = type(a)(database=st['root'], table=st['id'])
                elif kind.startswith('dir'):
                    b = type(a)(dirname=st['id'], **{x: y for x, y in st.items() if x != 'id'})
                else:
                    b = type(a)(filename=st['id'], **{x: y for x, y in st.items() if x != 'id'})
            elif how == 'copy':
                b = a.copy()
            elif how == 'pickle':
                if kind.startswith('sql'):
                    b = make(kind, 'memo', self.scratch)     # sqlite connections do not pickle; not claimed
                else:
                    b = dill.loads(dill.dumps(a))
            else:
                b = early
        except (PathPruned, Inconclusive):
            raise
        except Exception as e:
            ctx.check(False, 'C04:reopen', dict(info, kind='re-opening raised %s' % type(e).__name__))
            return
        if self.cfg.get('canary'):
            D = dict(D)
            D['canary'] = 0
        self.contents(ctx, b, D, info, prop='C04', label='fresh-handle')
        # keys keep their type
        try:
            ks = list(b.keys())
        except Exception:
            ks = []
        if kind not in SYMBOLIC_KEYS:
            ctx.check(all(any(type(x) is type(y) and x == y for y in D) for x in ks), 'C04:key-type', dict(info, kind='key type changed'))
        # settings survive
        if how in ('state', 'copy', 'pickle'):
            sa, sb = a.state, b.state
            ctx.check(sa == sb, 'C04:settings', dict(info, kind='state differs: %s vs %s' % (sorted(sa.items(), key=str), sorted(sb.items(), key=str))))
        # writes through the new handle are seen by the old one (same store)
        k, v = self.K(ctx), self.V(ctx)
        try:
            b[k] = v
        except (PathPruned, Inconclusive):
            raise
        except Exception as e:
            ctx.check(False, 'C04:same-store', dict(info, kind='writing through the new handle raised %s' % type(e).__name__))
            return
        D[k] = v
        self.contents(ctx, a, D, dict(info, pre='written through the new handle'), prop='C04', label='same-store')


def build(cfg):
    return Arch(cfg)


def plan(prop, tier):
    q = tier == 'quick'
    cfgs = []

    def add(kind, **kw):
        kw['kind'] = kind
        kw['props'] = [prop]
        kw['name'] = 'arch/%s/%s/prefix%d/ops%d%s%s' % (kw.get('scenario', 'refine'), kind, kw.get('prefix', 0), kw.get('nops', 0),
                                                       '/first=' + '+'.join(kw['first']) if kw.get('first') else '',
                                                       '/how=' + kw['how'] if kw.get('how') else '')
        if kw.get('valwit'):
            kw['name'] += '/value-witnesses'
        if kw.get('canary'):
            kw['name'] = 'canary:' + kw['name']
        cfgs.append(kw)
    if prop == 'C03':
        for kind in ('dict', 'null', 'file', 'filejson', 'dir', 'dirjson', 'dirfast', 'sql', 'sqlfile'):
            for op in OPS:
                add(kind, prefix=2 if q else 3, nops=1, first=[op], weight=3 if kind in ('dir', 'sql', 'sqlfile') else 1)
            if kind in ('dict', 'null'):
                continue
            if not q:
                for op in ('set', 'del', 'pop', 'popitem', 'setdefault', 'update', 'clear', 'set_bad', 'popkeys', 'copy'):
                    add(kind, prefix=1, nops=2, first=[op], weight=20)
            elif kind in ('file', 'dir', 'sqlfile'):
                for op in ('set', 'del', 'pop', 'popitem', 'setdefault', 'update', 'clear', 'set_bad'):
                    add(kind, prefix=1, nops=2, first=[op], weight=20)
        for kind in ('dir', 'sql', 'file'):
            add(kind, scenario='alias')
        for kind in ('dir', 'dirjson'):
            add(kind, scenario='slash')
        for kind in ('sql',):
            for op in ('set', 'getitem', 'items', 'pop'):
                add(kind, prefix=1, nops=1, first=[op], valwit=True, weight=3)
        add('file', prefix=1, nops=1, first=['set'], canary=True)
    elif prop == 'C04':
        for kind in PERSISTENT:
            for how in ('ctor', 'state', 'copy', 'pickle', 'early'):
                sym = kind in SYMBOLIC_KEYS
                add(kind, scenario='persist', how=how, prefix=(3 if q else 4) if sym else (2 if q else 3), weight=1 if sym else 5)
        for kind in ('sqlfile', 'dirjson', 'filejson'):
            add(kind, scenario='persist', how='ctor', prefix=1, valwit=True, weight=5)
        for kind in ('dir', 'dirjson'):
            add(kind, scenario='slash')
        add('file', scenario='persist', prefix=1, canary=True)
    return cfgs
