"""relational (lock-step twin) harnesses over the real cache decorators: C16, C18, C20.

Two decorated functions built identically run side by side on the same symbolic arguments.  One of them
additionally receives the thing under study (a raising call / key()+lookup() probes / a dill round trip);
equality of every later observable of the two (results, evaluations, memory, archive, statistics) is the
obligation - this decides 'as if the call had not been made' and 'eviction order unchanged' without looking
at private state.
"""
import random as _random
import dill
from ksym.core import Ctx, And, Or, Not, ArgSort, ValSort, PathPruned, Inconclusive
from ksym.values import Sym
from stubs import cryptoshim
from harness.hist import make_keymap, BOUNDED, ALGOS
from harness.sync import same_dict


class UserError(Exception):
    pass


class G:
    """module-level state so that the wrapped functions are importable (dill pickles them by reference)"""
    ctx = None
    evals = {'A': [], 'B': []}
    raising = None
    rr_log = {}
    rr_side = None
    rr_step = 0


ROUND_WIT = (1.234, (1.234, 2.0), ((1.234,), 'a'), 1.2341, (1.2341, 2.0), 3)    # arguments that a tolerance changes (tol=2): flat and nested


def zarg(x):
    if isinstance(x, Sym):
        return x
    for i, w in enumerate(ROUND_WIT):
        if type(w) is type(x) and w == x:
            return i
    return x


def fA(x):
    G.evals['A'].append(x)
    if G.raising is not None:
        raise G.raising
    return G.ctx.apply('F', [zarg(x)])


def fB(x):
    G.evals['B'].append(x)
    return G.ctx.apply('F', [zarg(x)])


def fAd(x, y=1.2345):
    G.evals['A'].append(x)
    return G.ctx.apply('F', [zarg(x)])


def fBd(x, y=1.2345):
    G.evals['B'].append(x)
    return G.ctx.apply('F', [zarg(x)])


ERRORS = (UserError, TypeError, KeyError, AttributeError)     # what the wrapped function may raise (the caches' own control flow uses KeyError/TypeError)


def coupled_choice(seq):
    """RR victim: side A draws a symbolic index, side B re-uses A's draw of the same step"""
    seq = list(seq)
    key = G.rr_step
    if G.rr_side == 'B' and key in G.rr_log:
        i = G.rr_log[key]
        return seq[i] if i < len(seq) else seq[-1]
    i = Ctx.cur.choice(len(seq), 'rr')
    if G.rr_side == 'A':
        G.rr_log[key] = i
    return seq[i]


class Hostile:
    pass


class BadHash(Hostile):
    def __hash__(self):
        raise TypeError('unhashable by decree')

    def __repr__(self):
        return 'BadHash()'


class BadRepr(Hostile):
    def __repr__(self):
        raise RuntimeError('no repr')
    __str__ = __repr__


class BadReduce(Hostile):
    def __reduce_ex__(self, p):
        raise RuntimeError('no pickle')

    def __repr__(self):
        return 'BadReduce()'


class BadEverything(Hostile):
    def __hash__(self):
        raise TypeError('no hash')

    def __repr__(self):
        raise RuntimeError('no repr')
    __str__ = __repr__

    def __reduce_ex__(self, p):
        raise RuntimeError('no pickle')


HOSTILE = (lambda: [1, 2], lambda: {'k': [1]}, lambda: {1, 2}, BadHash, BadRepr, BadReduce, BadEverything,
           lambda: ([1], {'a': BadRepr()}))


class Twin:
    def __init__(self, cfg):
        self.cfg = cfg

    def install(self):
        undo1 = cryptoshim.install()
        saved = _random.choice
        _random.choice = coupled_choice

        def undo():
            _random.choice = saved
            undo1()
        return undo

    def replay_install(self, assignment):
        saved = _random.choice
        _random.choice = coupled_choice

        def undo():
            _random.choice = saved
        return undo

    def signature(self, label, info):
        info = info or {}
        return {'label': label, 'module': self.cfg['module'], 'algo': self.cfg['algo'], 'kind': info.get('kind'),
                'scenario': self.cfg['scenario']}

    def render(self, a):
        return {'vars': a.get('vars', {})}

    def decorate(self, f, maxsize):
        import klepto
        import klepto.safe
        import klepto.archives as KA
        cfg = self.cfg
        K = klepto.safe if cfg['module'] == 'safe' else klepto
        dec = getattr(K, cfg['algo'] + '_cache')
        b = cfg['backend']
        cache = None if b == 'none' else (KA.dict_archive('a', cached=True) if b == 'cached_dict' else KA.null_archive('n', cached=True))
        kw = {'cache': cache, 'purge': cfg.get('purge', False)}
        km = make_keymap(cfg.get('keymap', 'raw'))
        if km is not None:
            kw['keymap'] = km
        if cfg.get('ignore'):
            kw['ignore'] = tuple(cfg['ignore'])
        if cfg.get('tol') is not None:
            kw['tol'] = cfg['tol']
        if cfg.get('deep'):
            kw['deep'] = True
        if cfg['algo'] in BOUNDED:
            kw['maxsize'] = maxsize
        return dec(**kw)(f)

    @staticmethod
    def observe(g):
        c = g.__cache__()
        a = c.archive
        arch = dict(a.items()) if a is not c else {}
        i = g.info()
        return dict(c), arch, (i.hit, i.miss, i.load, i.size)

    def compare(self, ctx, gA, gB, label, info):
        mA, aA, iA = self.observe(gA)
        mB, aB, iB = self.observe(gB)
        ok = And(same_dict(mA, mB), same_dict(aA, aB), iA == iB)
        if self.cfg.get('canary'):
            ok = Not(ok)
        ctx.check(ok, label, dict(info, kind=info.get('kind', 'observable state of the twins differs')))

    # ------------------------------------------------------------------
    def fn(self, ctx):
        G.ctx = ctx
        G.evals = {'A': [], 'B': []}
        G.raising = None
        G.rr_log = {}
        G.rr_side = None
        sc = self.cfg['scenario']
        if sc == 'hostile':
            return self.fn_hostile(ctx)
        cfg = self.cfg
        algo = cfg['algo']
        maxsize = ctx.int('maxsize', lo=1) if algo in BOUNDED else None
        if sc == 'builtin':
            return self.fn_builtin(ctx, maxsize)
        if sc == 'hostile-history':
            return self.fn_hostile_history(ctx, maxsize)
        gA = self.decorate(fAd if cfg.get('fdefault') else fA, maxsize)
        gB = self.decorate(fBd if cfg.get('fdefault') else fB, maxsize)
        if cfg.get('preload') and cfg['backend'] != 'none':
            # both twins start with an entry that a bulk load() put into memory (also for maxsize=0 caches)
            x0 = ctx.atom(ArgSort, 'x')
            for gg in (gA, gB):
                c0 = gg.__cache__()
                c0.archive[gg.key(x0)] = ctx.apply('F', [x0])
                gg.load()
        N = cfg['N']
        P = {'raise': 'C16', 'probe': 'C18', 'pickle': 'C20'}[sc]
        atoms = []
        pickled_at = cfg.get('pickle_after')
        Err = ERRORS[ctx.choice(len(ERRORS), 'err')] if sc == 'raise' else None
        for i in range(N):
            G.rr_step = i
            if cfg.get('args') == 'round':
                x = ROUND_WIT[ctx.choice(len(ROUND_WIT), 'ri')]
            else:
                x = ctx.atom(ArgSort, 'x')
            atoms.append(x)
            # ---- C18: probes on side A only
            if sc == 'probe':
                pr = ctx.choice(3, 'probe')
                if pr:
                    px = atoms[ctx.choice(len(atoms), 'pi')]
                    nA = len(G.evals['A'])
                    before = self.observe(gA)
                    try:
                        k = gA.key(px)
                        stored = k in before[0]
                        if pr == 2:
                            try:
                                val = gA.lookup(px)
                                ctx.check(stored, 'C18:lookup', {'kind': 'lookup returned a value for a non-resident call'})
                                if stored:
                                    ctx.check(val == before[0][k], 'C18:lookup', {'kind': 'lookup returned a wrong value'})
                                    if cfg.get('args') != 'round':     # with a tolerance a nearby call's value is what is resident
                                        ctx.check(val == ctx.apply('F', [zarg(px)]), 'C18:lookup', {'kind': 'lookup value is not the function value'})
                            except KeyError:
                                ctx.check(not stored, 'C18:lookup', {'kind': 'lookup raised KeyError for a resident call'})
                    except (PathPruned, Inconclusive):
                        raise
                    except Exception as e:
                        ctx.check(False, 'C18:no-exception', {'kind': 'probe raised %s' % type(e).__name__})
                        return
                    ctx.check(len(G.evals['A']) == nA, 'C18:no-eval', {'kind': 'probe evaluated the function'})
                    after = self.observe(gA)
                    ctx.check(And(same_dict(before[0], after[0]), same_dict(before[1], after[1]), before[2] == after[2]),
                              'C18:no-change', {'kind': 'probe changed contents or statistics'})
            # ---- C16: side A may raise on this call
            will_raise = sc == 'raise' and ctx.bool('raise')
            err = Err('boom %d' % i) if will_raise else None
            nA, nB = len(G.evals['A']), len(G.evals['B'])
            before = self.observe(gA) if (will_raise or sc == 'probe') else None
            G.raising = err
            G.rr_side = 'A'
            raised = None
            try:
                rA = gA(x)
            except (PathPruned, Inconclusive):
                raise
            except Exception as e:
                raised = e
            finally:
                G.raising = None
            if raised is not None:
                if not will_raise:
                    ctx.check(False, P + ':no-exception', {'kind': 'call raised %s' % type(raised).__name__})
                    return
                ctx.check(raised is err, 'C16:same-exception', {'kind': 'a different exception reached the caller: %s' % type(raised).__name__})
                ctx.check(len(G.evals['A']) - nA == 1, 'C16:single-evaluation', {'kind': 'evaluated %d times' % (len(G.evals['A']) - nA)})
                after = self.observe(gA)
                ok = And(same_dict(before[0], after[0]), same_dict(before[1], after[1]), before[2] == after[2])
                ctx.check(ok if not cfg.get('canary') else Not(ok), 'C16:no-trace', {'kind': 'failed call changed contents or statistics'})
                self.compare(ctx, gA, gB, 'C16:as-if-not-made', {'kind': 'twin that never saw the failed call differs'})
                continue
            # normal call on both sides
            G.rr_side = 'B'
            try:
                rB = gB(x)
            except (PathPruned, Inconclusive):
                raise
            except Exception as e:
                ctx.check(False, P + ':no-exception', {'kind': 'twin call raised %s' % type(e).__name__})
                return
            G.rr_side = None
            lab = {'raise': 'C16:as-if-not-made', 'probe': 'C18:as-if-not-probed', 'pickle': 'C20:continuation'}[sc]
            ctx.check(rA == rB, lab, {'kind': 'results differ'})
            ctx.check((len(G.evals['A']) - nA) == (len(G.evals['B']) - nB), lab, {'kind': 'one twin evaluated, the other did not'})
            self.compare(ctx, gA, gB, lab, {})
            if sc == 'probe':
                ctx.check(gA.__wrapped__ is (fAd if cfg.get('fdefault') else fA), 'C18:wrapped', {'kind': '__wrapped__ is not the original function'})
                k = gA.key(x)
                m = gA.__cache__()
                after = self.observe(gA)
                # whatever this call stored - in memory or in the archive - is stored under key(args)
                for where, b4, af in (('memory', before[0], after[0]), ('archive', before[1], after[1])):
                    for nk in af:
                        if nk not in b4 and not (where == 'archive' and nk in before[0]):      # (an evicted entry keeps its own key)
                            ctx.check(nk == k, 'C18:key-stored', {'kind': 'the call was stored in %s under a key other than key(args)' % where})
                if algo != 'no':
                    ctx.check((k in m) or len(m) == 0 or algo in BOUNDED, 'C18:key-stored', {'kind': 'key() is not the key the call is stored under'})
                    if k in m:
                        ctx.check(m[k] == rA, 'C18:key-stored', {'kind': 'value stored under key() is not the result'})
            # ---- C20: round trip after `pickled_at` calls; from then on gB is the clone of gA
            if sc == 'pickle' and pickled_at is not None and i == pickled_at - 1:
                paused = bool(cfg.get('pause')) and cfg['backend'] != 'none'
                if paused:                      # archiving is switched off while the function is pickled
                    gA.archived(False)
                    gB.archived(False)
                try:
                    clone = dill.loads(dill.dumps(gA))
                except (PathPruned, Inconclusive):
                    raise
                except Exception as e:
                    ctx.check(False, 'C20:picklable', {'kind': 'round trip raised %s' % type(e).__name__})
                    return
                # equal contents / statistics / configuration right after the round trip
                self.compare(ctx, gA, clone, 'C20:equal-after-roundtrip', {'kind': 'clone differs right after the round trip'})
                iA, iC = gA.info(), clone.info()
                ctx.check((iA.maxsize is None and iC.maxsize is None) or (iA.maxsize == iC.maxsize), 'C20:configuration', {'kind': 'maxsize differs'})
                ctx.check(repr(gA.__map__()) == repr(clone.__map__()) and gA.__mask__() == clone.__mask__(), 'C20:configuration', {'kind': 'keymap or ignore differs'})
                ctx.check(clone.__cache__() is not gA.__cache__(), 'C20:independent', {'kind': 'clone shares the in-memory cache object'})
                # independence: a call on the original only
                y = ctx.atom(ArgSort, 'y')
                memC = dict(clone.__cache__())
                infoC = clone.info()
                G.rr_side = None
                gA(y)
                ctx.check(And(same_dict(dict(clone.__cache__()), memC), tuple(clone.info()) == tuple(infoC)), 'C20:independent',
                          {'kind': 'a call on the original changed the clone'})
                # continue in lock-step: the clone vs the never-pickled reference twin gB (neither saw the call y)
                gA = clone
                if not paused and cfg['backend'] != 'none':
                    # switching archiving on where it already is on changes nothing - in the copy as in the reference
                    for gg in (gA, gB):
                        try:
                            gg.archived(True)
                        except ValueError:
                            pass
                    ctx.check(gA.archived() == gB.archived(), 'C20:configuration', {'kind': 'archived(True) on the restored copy changed whether it is archived'})
                if paused:                      # ... and switched back on in the restored copy
                    try:
                        gA.archived(True)
                    except (PathPruned, Inconclusive):
                        raise
                    except Exception as e:
                        ctx.check(False, 'C20:configuration', {'kind': 'the restored copy lost its paused archive (%s)' % type(e).__name__})
                        return
                    gB.archived(True)
                    self.compare(ctx, gA, gB, 'C20:continuation', {'kind': 'state differs after switching the archive back on'})
                # the clone calls the same module-level function fA; evaluation logs keep working


    def fn_builtin(self, ctx, maxsize):
        """the memoized callable is C-implemented without an introspectable signature: key()/lookup() still never run it"""
        import collections
        dq = collections.deque()
        g = self.decorate(dq.append, maxsize)
        x0, x1 = ctx.atom(ArgSort, 'x'), ctx.atom(ArgSort, 'x')
        try:
            g(x0)
        except (PathPruned, Inconclusive):
            raise
        except Exception as e:
            ctx.check(False, 'C18:no-exception', {'kind': 'call raised %s' % type(e).__name__})
            return
        n = len(dq)
        for px in (x1, x0):
            try:
                g.key(px)
                try:
                    g.lookup(px)
                except KeyError:
                    pass
            except (PathPruned, Inconclusive):
                raise
            except Exception as e:
                ctx.check(False, 'C18:no-exception', {'kind': 'probe raised %s' % type(e).__name__})
                return
            ok = len(dq) == n
            ctx.check(ok, 'C18:no-eval', {'kind': 'probe evaluated the function'})

    def fn_hostile_history(self, ctx, maxsize):
        """safe decorators: calls with unhashable arguments inside ordinary histories never make any call fail"""
        cfg = self.cfg
        g = self.decorate(fH2, maxsize)
        for i in range(cfg['N']):
            hostile = ctx.bool('hostile')
            x = [1, 2] if hostile else ctx.atom(ArgSort, 'x')
            size_b = len(g.__cache__())
            try:
                r = g(x)
            except (PathPruned, Inconclusive):
                raise
            except Exception as e:
                ctx.check(False, 'C16:safe-never-fails', {'kind': 'safe cache raised %s in a history with unhashable arguments' % type(e).__name__})
                return
            want = ctx.apply('FH', [99]) if hostile else ctx.apply('F', [x])
            ctx.check(r == want, 'C16:safe-result', {'kind': 'wrong result in a history with unhashable arguments'})
            size_a = len(g.__cache__())
            if maxsize is not None:
                ctx.check(Or(size_a <= maxsize, size_a <= size_b), 'C16:safe-bound', {'kind': 'cache grew past its bound in a history with unhashable arguments'})

    def fn_hostile(self, ctx):
        """safe decorators never fail on arguments the keymap cannot hash/encode"""
        cfg = self.cfg
        gA = self.decorate(fH, 3 if cfg['algo'] in BOUNDED else None)
        w = ctx.choice(len(HOSTILE), 'w')
        arg = HOSTILE[w]()
        G.hostile_w = w
        n = len(G.evals['A'])
        for rep in range(2):
            try:
                r = gA(arg)
            except (PathPruned, Inconclusive):
                raise
            except Exception as e:
                ctx.check(False, 'C16:safe-never-fails', {'kind': 'safe cache raised %s on argument kind %d' % (type(e).__name__, w)})
                return
            ok = r == ctx.apply('FH', [w])
            ctx.check(ok if not cfg.get('canary') else Not(ok), 'C16:safe-result', {'kind': 'wrong result for hostile argument'})
        ev = len(G.evals['A']) - n
        ctx.check(1 <= ev <= 2, 'C16:safe-evaluations', {'kind': 'evaluated %d times for 2 calls' % ev})
        i = gA.info()
        ctx.check(i.hit + i.miss + i.load == 2, 'C16:safe-stats', {'kind': 'statistics do not add up'})


def fH(x):
    G.evals['A'].append(x)
    return G.ctx.apply('FH', [G.hostile_w])


def fH2(x):
    G.evals['A'].append(x)
    return G.ctx.apply('FH', [99]) if isinstance(x, list) else G.ctx.apply('F', [x])


def build(cfg):
    return Twin(cfg)


def plan(prop, tier):
    q = tier == 'quick'
    cfgs = []

    def add(**kw):
        kw['props'] = [prop]
        kw['name'] = 'twin/%s/%s-%s%s/%s/%s/N%d' % (kw['scenario'], kw['module'], kw['algo'], '+purge' if kw.get('purge') else '',
                                                   kw['backend'], kw.get('keymap', 'raw'), kw.get('N', 0))
        if kw.get('args'):
            kw['name'] += '/%s%s' % (kw['args'], '+deep' if kw.get('deep') else '')
        if kw.get('ignore'):
            kw['name'] += '/ignore=%s' % ','.join(map(str, kw['ignore']))
        if kw.get('pause'):
            kw['name'] += '/paused'
        if kw.get('fdefault'):
            kw['name'] += '/float-default'
        if kw.get('preload'):
            kw['name'] += '/preloaded'
        if kw.get('pickle_after'):
            kw['name'] += '/after%d' % kw['pickle_after']
        if kw.get('canary'):
            kw['name'] = 'canary:' + kw['name']
        kw.setdefault('weight', kw.get('N', 1) ** 3 * (6 if kw['algo'] == 'rr' else 1))
        cfgs.append(kw)
    if prop == 'C16':
        N = 4 if q else 5
        for m in ('std', 'safe'):
            for a in ALGOS:
                for b in ('none', 'cached_dict'):
                    purges = (False, True) if (a in BOUNDED and b == 'cached_dict') else (False,)
                    for p in purges:
                        add(scenario='raise', module=m, algo=a, backend=b, purge=p, N=N if a != 'rr' else N - 1)
        for a in ALGOS:
            for km in ('default', 'raw', 'str', 'pickle', 'md5', 'pyhash', 'strflat', 'rawnf'):
                for b in ('none', 'cached_dict'):
                    add(scenario='hostile', module='safe', algo=a, backend=b, keymap=km)
        for a in ALGOS:
            for km in ('raw', 'default'):
                for b in ('none', 'cached_dict'):
                    add(scenario='hostile-history', module='safe', algo=a, backend=b, keymap=km, N=3 if q else 4)
            for m in ('std', 'safe'):
                add(scenario='raise', module=m, algo=a, backend='cached_dict', N=2 if q else 3, preload=True)
        add(scenario='raise', module='std', algo='lru', backend='none', N=3, canary=True)
    elif prop == 'C18':
        N = 3 if q else 4
        for m in ('std', 'safe'):
            for a in ALGOS:
                for b in ('none', 'cached_dict'):
                    for km in (('raw',) if q else ('raw', 'str', 'pyhash')):
                        add(scenario='probe', module=m, algo=a, backend=b, keymap=km, N=N if a != 'rr' else 3)
                add(scenario='probe', module=m, algo=a, backend='none', keymap='raw', N=3, ignore=[0] if False else None, tol=2)
                for deep in (False, True):
                    add(scenario='probe', module=m, algo=a, backend='cached_dict' if a == 'no' else 'none', keymap='raw', N=2 if q else 3, tol=2, deep=deep, args='round')
                # a float default with more digits than the tolerance, left to its default by the caller
                add(scenario='probe', module=m, algo=a, backend='cached_dict' if a == 'no' else 'none', keymap='raw', N=2, tol=2, fdefault=True)
                add(scenario='builtin', module=m, algo=a, backend='none', keymap='raw', N=1)
        add(scenario='probe', module='std', algo='lru', backend='none', N=2, canary=True)
    elif prop == 'C20':
        for m in ('std', 'safe'):
            for a in ALGOS:
                for b in ('none', 'cached_dict', 'null'):
                    for after in ((2,) if q else (1, 2, 3)):
                        add(scenario='pickle', module=m, algo=a, backend=b, N=after + (2 if q else 3), pickle_after=after,
                            keymap='raw' if m == 'std' else 'default')
                # keymaps with state of their own: composed (a + b), typed, sentinel
                for km in (('chain', 'rawsent', 'rawSENTINEL') if q else ('chain', 'chainnf', 'rawsent', 'rawSENTINEL', 'rawtyped', 'str', 'md5nf')):
                    add(scenario='pickle', module=m, algo=a, backend='cached_dict', N=4, pickle_after=2, keymap=km)
                add(scenario='pickle', module=m, algo=a, backend='cached_dict', N=4, pickle_after=2, keymap='raw', pause=True)
                # keys that hold klepto's own marker objects (the placeholder of an ignored argument)
                add(scenario='pickle', module=m, algo=a, backend='cached_dict', N=4, pickle_after=2, keymap='raw', ignore=['x'])
                if not q:
                    add(scenario='pickle', module=m, algo=a, backend='none', N=4, pickle_after=2, keymap='str', ignore=['x'])
        add(scenario='pickle', module='std', algo='lru', backend='none', N=3, pickle_after=1, canary=True)
    return cfgs
