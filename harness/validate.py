"""C19: validate / isvalid agree with Python's own argument binding.

Programs: signature shapes (as in harness.keys) as plain functions, bound methods, callable instances and
functools.partial objects fixing positionals and/or keywords.  Symbolic per program: the number of positional
arguments (0..5), for every name of a pool (the parameter names plus two names that are no parameter) whether
it is passed as a keyword, and the argument values (atoms).  Oracle: Python's binder itself, on a
side-effect-free stub with the same signature.  The real function is instrumented to show it is never called.
"""
import functools
from ksym.core import Ctx, And, Or, Not, ArgSort, PathPruned, Inconclusive
from harness.keys import POS, KWO, XKW, shape_name, quick_shapes, all_shapes, thorough_shapes


def make_pair(sh, kind, log):
    """(real callable, stub callable) with the same signature; the real one logs every call"""
    params = []
    for i in range(sh['npos']):
        n = POS[i]
        params.append(n + ('=None' if i >= sh['npos'] - sh['ndef'] else ''))
    if sh['varargs']:
        params.append('*args')
    elif sh['nkwo']:
        params.append('*')
    for i in range(sh['nkwo']):
        params.append(KWO[i] + ('=None' if sh['kwodef'][i] else ''))
    if sh['varkw']:
        params.append('**kw')
    sig = ', '.join(params)
    ns = {'_log': log}
    if kind == 'func':
        exec('def real(%s):\n    _log.append(1)\ndef stub(%s):\n    return None\n' % (sig, sig), ns)
        return ns['real'], ns['stub']
    if kind == 'wrapped':
        # a decorator's wrapper (functools.wraps): its own signature is what a call binds against,
        # although __wrapped__ points at a function with another signature (one more leading parameter)
        exec('def real(%s):\n    _log.append(1)\ndef stub(%s):\n    return None\ndef inner(conn, %s):\n    _log.append(2)\n' % (sig, sig, sig), ns)
        functools.update_wrapper(ns['real'], ns['inner'])
        return ns['real'], ns['stub']
    ssig = ', '.join(['self'] + params)
    if kind == 'pmethod':           # a bound method that is then wrapped in functools.partial (positional calls only)
        kind = 'method'
    if kind == 'method':
        exec('class R:\n    def m(%s):\n        _log.append(1)\nclass S:\n    def m(%s):\n        return None\n' % (ssig, ssig), ns)
        return ns['R']().m, ns['S']().m
    if kind == 'instance-args':
        # a callable instance that merely has attributes named like those of functools.partial (a job remembering its inputs)
        exec('class R:\n    def __init__(self):\n        self.args = (1, 2)\n        self.keywords = {"a": 1}\n    def __call__(%s):\n        _log.append(1)\n'
             'class S:\n    def __call__(%s):\n        return None\n' % (ssig, ssig), ns)
        return ns['R'](), ns['S']()
    if kind == 'instance':
        exec('class R:\n    def __call__(%s):\n        _log.append(1)\nclass S:\n    def __call__(%s):\n        return None\n' % (ssig, ssig), ns)
        return ns['R'](), ns['S']()
    raise ValueError(kind)


class Validate:
    def __init__(self, cfg):
        self.cfg = cfg

    def install(self):
        return lambda: None

    def signature(self, label, info):
        info = info or {}
        sh = self.cfg['shape']
        fam = {'wrapped': 'func', 'instance-args': 'instance', 'pmethod': 'method'}.get(self.cfg['kind'], self.cfg['kind'])   # same code path
        sig = {'label': label, 'kind': info.get('kind'), 'callable': fam if info.get('diagnosed') else self.cfg['kind']}
        if not info.get('diagnosed'):
            sig['shape'] = shape_name(sh)
            sig['partial'] = str(self.cfg.get('partial'))
            sig['call'] = info.get('call')
        return sig

    def render(self, a):
        return {'shape': shape_name(self.cfg['shape']), 'callable': self.cfg['kind'], 'partial': self.cfg.get('partial'), 'vars': a.get('vars', {})}

    def fn(self, ctx):
        import klepto
        cfg = self.cfg
        sh = cfg['shape']
        log = []
        from harness.keys import module_state
        module_state().reset()
        real, stub = make_pair(sh, cfg['kind'], log)
        if cfg['kind'] == 'func' and (sh['npos'] or sh['nkwo']):
            # another callable form of the same function has been inspected before: a partial that binds every parameter by keyword
            allnames = [POS[i] for i in range(sh['npos'])] + [KWO[i] for i in range(sh['nkwo'])]
            try:
                klepto.isvalid(functools.partial(real, **{n: ctx.atom(ArgSort, 'pp') for n in allnames}))
            except (PathPruned, Inconclusive):
                raise
            except Exception:
                pass
        part = cfg.get('partial')
        if part:
            npos_fixed, kw_fixed = part
            fa = tuple(ctx.atom(ArgSort, 'fp') for _ in range(npos_fixed))
            fk = {n: ctx.atom(ArgSort, 'fk') for n in kw_fixed}
            real = functools.partial(real, *fa, **fk)
            stub = functools.partial(stub, *fa, **fk)
        names = [POS[i] for i in range(sh['npos'])] + [KWO[i] for i in range(sh['nkwo'])] + list(XKW)
        n = ctx.choice(6, 'npos')
        args = tuple(ctx.atom(ArgSort, 'v') for _ in range(n))
        kwds = {}
        for nm in names:
            if cfg['kind'] != 'pmethod' and ctx.bool('kw_' + nm):
                kwds[nm] = ctx.atom(ArgSort, 'w')
        try:
            stub(*args, **kwds)
            binds = True
        except TypeError:
            binds = False
        # the known defect (validate ignores keyword-only parameters) predicts: klepto answers as Python would for the
        # same signature without its keyword-only parameters; any other disagreement is a different defect
        binds_nokw = None
        if sh['nkwo'] and cfg['kind'] in ('func', 'method', 'instance', 'wrapped', 'instance-args'):
            _r, stub_nk = make_pair(dict(sh, nkwo=0, kwodef=[]), cfg['kind'], [])
            if part:
                stub_nk = functools.partial(stub_nk, *fa, **fk)
            try:
                stub_nk(*args, **kwds)
                binds_nokw = True
            except TypeError:
                binds_nokw = False
        call = 'f(%d positional%s)' % (n, ''.join(', %s=' % k for k in kwds))
        try:
            got = klepto.isvalid(real, *args, **kwds)
        except (PathPruned, Inconclusive):
            raise
        except Exception as e:
            ctx.check(False, 'C19:isvalid-total', {'kind': 'isvalid raised %s' % type(e).__name__, 'call': call})
            return
        raised = None
        try:
            klepto.validate(real, *args, **kwds)
        except (PathPruned, Inconclusive):
            raise
        except Exception as e:
            raised = e
        kwonly = sh['nkwo'] > 0
        diag = {}
        if kwonly and (bool(got) != binds) and (binds_nokw is None or bool(got) == binds_nokw):
            diag = {'diagnosed': True}
        kind = 'isvalid=%s but Python %s the call' % (got, 'binds' if binds else 'rejects')
        if diag:
            kind = 'keyword-only parameters are not understood by validate (isvalid=%s, Python %s)' % (got, 'binds' if binds else 'rejects')
        ok = (bool(got) == binds)
        if cfg.get('canary'):
            ok = not ok
        ctx.check(ok, 'C19:agree', dict(diag, kind=kind, call=call))
        if binds:
            ctx.check(raised is None, 'C19:validate', dict(diag, kind='validate raised %s for a call Python binds' % type(raised).__name__ if not diag else kind, call=call))
        else:
            ctx.check(isinstance(raised, TypeError), 'C19:validate',
                      dict(diag, kind=('validate raised %s instead of TypeError' % (type(raised).__name__ if raised else 'nothing')) if not diag else kind, call=call))
        ctx.check(not log, 'C19:never-called', {'kind': 'the function was called', 'call': call})


def build(cfg):
    return Validate(cfg)


def partials_for(sh, tier):
    out = [None]
    names = [POS[i] for i in range(sh['npos'])]
    for k in range(1, min(sh['npos'], 3) + 1):
        out.append((k, []))
    if names:
        out.append((0, [names[-1]]))
        out.append((0, [names[0]]))
    if sh['npos'] >= 2:
        out.append((1, [names[-1]]))
    if sh['varargs']:
        out.append((sh['npos'] + 1, []))
    if sh['varkw']:
        out.append((0, ['p']))
    if sh['nkwo']:
        out.append((0, [KWO[0]]))
    if tier == 'quick':
        return out[:5]
    return out


def plan(prop, tier):
    q = tier == 'quick'
    shapes = quick_shapes() if q else all_shapes()
    cfgs = []
    for sh in shapes:
        for kind in ('func', 'method', 'instance', 'wrapped', 'pmethod', 'instance-args'):
            if q and kind != 'func' and (sh['nkwo'] or sh['npos'] > 2):
                continue
            if kind == 'pmethod' and (sh['nkwo'] or sh['varkw']):
                continue
            if kind == 'pmethod':
                parts = [(k, []) for k in range(1, sh['npos'] + 2)]
            elif kind in ('func', 'wrapped'):
                parts = partials_for(sh, tier) if kind == 'func' else partials_for(sh, tier)[:3]
            else:
                parts = [None]
            for part in parts:
                if kind == 'pmethod' and part[0] > sh['npos'] and not sh['varargs']:
                    pass            # over-filled partial of a bound method: every call must be rejected
                elif part and part[0] > sh['npos'] and not sh['varargs']:
                    continue
                cfgs.append({'name': 'validate/%s/%s/partial=%s' % (kind, shape_name(sh), part), 'shape': sh, 'kind': kind,
                             'partial': part, 'props': ['C19'], 'weight': 2 ** (sh['npos'] + sh['nkwo'])})
    cfgs.append({'name': 'canary:validate/func/f(a,b=D)', 'shape': quick_shapes()[2], 'kind': 'func', 'partial': None,
                 'props': ['C19'], 'canary': True})
    return cfgs
