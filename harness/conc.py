"""C14: concurrent processes on one archive.

Two or three real archive operations run as threads over the model file system with strict hand-over at
every model system call (the archive code is plain Python whose only shared state is the file system, so
threads with hand-over at system calls are processes at system-call granularity).  The schedule is symbolic:
which process starts, and at every system call whether the running process is pre-empted (bounded number of
pre-emptions, CHESS-style) and who continues when one finishes.  Values and the prior store are symbolic.
Counterexamples are confirmed by real threads on the real file system with the same hand-over discipline at
the real os calls (sweep over pre-emption points).
"""
import os
import shutil
import tempfile
import threading
from ksym.core import Ctx, And, Or, Not, ArgSort, ValSort, PathPruned, Inconclusive
from ksym.values import REGISTRY
from stubs import posixfs, sqlshim
from harness import arch
from harness.sync import same_dict

ABSENT = 'ABSENT'


class Abort(BaseException):
    pass


class Sched:
    """strict hand-off scheduler: exactly one thread runs at a time; switch points are calls to point()"""

    def __init__(self, decide_preempt, decide_next, budget):
        self.decide_preempt, self.decide_next, self.budget = decide_preempt, decide_next, budget
        self.procs = []
        self.cur = None
        self.trace = []
        self.npoints = 0
        self.error = None

    def spawn(self, name, fn):
        p = {'name': name, 'fn': fn, 'sem': threading.Semaphore(0), 'done': False, 'res': None, 'started': False}
        p['th'] = threading.Thread(target=self._body, args=(p,), daemon=True)
        self.procs.append(p)
        return p

    def _body(self, p):
        p['sem'].acquire()
        try:
            p['res'] = ('ok', p['fn']())
        except Abort:
            p['res'] = ('abort',)
        except (PathPruned, Inconclusive) as e:
            p['res'] = ('engine', e)
        except BaseException as e:
            p['res'] = ('exc', e)
        p['done'] = True
        self.main.release()

    def point(self, name='sys'):
        """called by the running thread before each system call"""
        cur = self.cur
        if cur is None or threading.current_thread() is not cur['th']:
            return
        if self.error:
            raise Abort()
        self.npoints += 1
        self.main.release()
        cur['sem'].acquire()
        if self.error:
            raise Abort()

    def run(self):
        self.main = threading.Semaphore(0)
        for p in self.procs:
            p['th'].start()
        live = list(range(len(self.procs)))
        i = live[self.decide_next(len(live))] if len(live) > 1 else live[0]
        while True:
            self.cur = self.procs[i]
            self.trace.append(i)
            self.cur['sem'].release()
            self.main.acquire()              # until the thread reaches a point or finishes
            try:
                live = [j for j, p in enumerate(self.procs) if not p['done']]
                if not live:
                    break
                if self.procs[i]['done']:
                    i = live[self.decide_next(len(live))] if len(live) > 1 else live[0]
                    continue
                others = [j for j in live if j != i]
                if others and self.budget > 0 and self.decide_preempt():
                    self.budget -= 1
                    i = others[self.decide_next(len(others))] if len(others) > 1 else others[0]
            except BaseException as e:        # engine signal while deciding: unwind all threads
                self.error = e
                for p in self.procs:
                    if not p['done']:
                        self.cur = p
                        p['sem'].release()
                        self.main.acquire()
                raise
        self.cur = None
        for p in self.procs:
            if p['res'] and p['res'][0] == 'engine':
                raise p['res'][1]
        return self.trace


# operations: name -> (callable(archive, vals) -> result, keys touched, kind of process)
def _ops():
    import klepto.archives as KA

    def loader(a, v):
        c = KA.cache(archive=a)
        c.load()
        return dict(c)
    return {
        'set_a': lambda a, v: a.__setitem__('a', v[0]),
        'set_b': lambda a, v: a.__setitem__('b', v[1]),
        'set_c': lambda a, v: a.__setitem__('c', v[0]),
        'set_d': lambda a, v: a.__setitem__('d', v[1]),
        'del_a': lambda a, v: a.__delitem__('a'),
        'get_a': lambda a, v: a['a'],
        'get_b': lambda a, v: a['b'],
        'in_a': lambda a, v: 'a' in a,
        'len': lambda a, v: len(a),
        'iter': lambda a, v: list(iter(a)),
        'asdict': lambda a, v: a.__asdict__(),
        'load': loader,
        'open': None,
        'open_cached': None,
    }


PAIRS_DIR = [('set_c', 'set_d'), ('set_c', 'get_b'), ('set_c', 'in_a'), ('set_c', 'len'), ('set_c', 'iter'), ('set_c', 'asdict'),
             ('set_c', 'load'), ('set_c', 'open'), ('set_a', 'get_a'), ('set_a', 'get_b'), ('set_a', 'in_a'), ('set_a', 'len'),
             ('set_a', 'iter'), ('set_a', 'asdict'), ('set_a', 'load'), ('set_a', 'open'), ('del_a', 'get_b'), ('del_a', 'asdict'),
             ('del_a', 'len')]
PAIRS_FILE = [('set_c', 'get_b'), ('set_c', 'asdict'), ('set_c', 'len'), ('set_c', 'load'), ('set_c', 'open'), ('set_a', 'get_a'),
              ('set_a', 'asdict'), ('set_a', 'open'), ('del_a', 'asdict'), ('del_a', 'open'), ('set_a', 'in_a'), ('set_a', 'iter')]
TRIPLES_DIR = [('set_c', 'set_d', 'len'), ('set_c', 'set_d', 'asdict')]
# opening the way most programs do (cached=True, the default: an in-memory cache in front of the archive), on an empty and on a filled archive
# sqlite-file table archive: writer/reader pairs at the granularity of klepto's own statements (execute / commit / select);
# sqlite's page-level locking between real processes is C/OS code and stays outside (no writer/writer pairs)
PAIRS_SQL = [('set_a', 'get_a'), ('set_a', 'asdict'), ('set_a', 'len'), ('set_a', 'in_a'), ('set_a', 'iter'), ('set_a', 'load'),
             ('set_c', 'get_b'), ('set_c', 'asdict'), ('del_a', 'asdict'), ('del_a', 'get_b')]
PAIRS_OPEN = [('set_c', 'open_cached'), ('set_a', 'open_cached'), ('del_a', 'open_cached')]
WRITERS = ('set_a', 'set_b', 'set_c', 'set_d', 'del_a')


def expected_after(ops, old, vals):
    new = dict(old)
    for o in ops:
        if o == 'set_a':
            new['a'] = vals[0]
        elif o == 'set_b':
            new['b'] = vals[1]
        elif o == 'set_c':
            new['c'] = vals[0]
        elif o == 'set_d':
            new['d'] = vals[1]
        elif o == 'del_a':
            new.pop('a', None)
    return new


class Conc:
    def __init__(self, cfg):
        self.cfg = cfg

    def install(self):
        undo1 = arch.installer().install()
        self.shim, undo2 = sqlshim.install()
        self.scratch = tempfile.mkdtemp(prefix='ksym_sql_') if self.cfg['kind'].startswith('sql') else None

        def undo():
            undo2()
            undo1()
            if self.scratch:
                shutil.rmtree(self.scratch, ignore_errors=True)
        return undo

    def signature(self, label, info):
        info = info or {}
        k = self.cfg['kind']
        fam = 'dir' if k.startswith('dir') else ('sql' if k.startswith('sql') else 'file')
        return {'label': label, 'archive': fam, 'ops': '|'.join(self.cfg['ops']), 'kind': info.get('kind')}

    def render(self, a):
        return {'archive': self.cfg['kind'], 'ops': self.cfg['ops'], 'vars': a.get('vars', {})}

    def judge(self, ctx, ops, results, old, vals, final, info):
        """the statement's guarantees, given each operation's outcome and the final contents seen by a fresh handle"""
        canary = self.cfg.get('canary')
        new_all = expected_after([o for o in ops if o in WRITERS], old, vals)
        stored = {}                                   # key -> values ever stored for it
        for d in (old, new_all):
            for k, v in d.items():
                stored.setdefault(k, []).append(v)
        fam = 'dir' if self.cfg['kind'].startswith('dir') else 'file'
        for o, res in zip(ops, results):
            if res[0] == 'exc':
                e = res[1]
                legit = False
                if o == 'get_a' and isinstance(e, KeyError) and 'del_a' in ops:
                    legit = True
                if o == 'del_a' and isinstance(e, KeyError):
                    legit = False
                ctx.check(legit, 'C14:no-failure', dict(info, kind='%s raised %s' % (o, type(e).__name__)))
                continue
            val = res[1]
            if o in ('get_a', 'get_b'):
                k = o[-1]
                ok = Or(*[val == s for s in stored.get(k, [])])
                ctx.check(ok if not canary else Not(ok), 'C14:stored-value', dict(info, kind='%s returned a value never stored for the key' % o))
            elif o == 'in_a':
                if 'del_a' not in ops:
                    ctx.check(val is True or ('a' not in old), 'C14:membership', dict(info, kind="'a' in archive is False although a is stored throughout"))
            elif o == 'len':
                lo = len([k for k in old if k in new_all])
                hi = len(set(old) | set(new_all))
                ctx.check(lo <= val <= hi, 'C14:len', dict(info, kind='len %s outside [%d, %d]' % (val, lo, hi)))
            elif o == 'iter':
                ks = list(val)
                ctx.check(all(k in stored for k in ks), 'C14:no-phantom', dict(info, kind='iteration yields a key never stored'))
                ctx.check(all(k in ks for k in old if k in new_all), 'C14:no-missing', dict(info, kind='iteration misses a key that is stored throughout'))
            elif o in ('asdict', 'load'):
                d = val
                ctx.check(all(k in stored for k in d), 'C14:no-phantom', dict(info, kind='%s shows a key never stored' % o))
                for k, v in d.items():
                    if k in stored:
                        ctx.check(Or(*[v == s for s in stored[k]]), 'C14:stored-value', dict(info, kind='%s shows a value never stored for the key' % o))
                ctx.check(all(k in d for k in old if k in new_all), 'C14:no-missing', dict(info, kind='%s misses a key that is stored throughout' % o))
                if fam == 'file':
                    ok = Or(same_dict(d, old), same_dict(d, new_all))
                    ctx.check(ok, 'C14:complete-dict', dict(info, kind='%s saw neither the earlier nor the later dictionary' % o))
        # no lost entries: what a fresh handle sees afterwards
        if final is None:
            return
        ok = same_dict(final, new_all)
        ctx.check(ok, 'C14:no-lost-entry', dict(info, kind='final contents differ from the effect of all completed writes'))

    def fn(self, ctx):
        REGISTRY.clear()
        cfg = self.cfg
        kind = cfg['kind']
        ops = cfg['ops']
        fs = arch.installer().fresh()
        sql = kind.startswith('sql')
        scratch = getattr(self, 'scratch', None)
        if sql:
            self.shim.close_all()
            for n in os.listdir(scratch):
                os.unlink(os.path.join(scratch, n))
        mk = (lambda: arch.make(kind, 'memo', scratch)) if sql else (lambda: arch.make(kind, 'memo'))
        a0 = mk()
        old = {}
        for k in ('a', 'b')[:cfg.get('prior', 2)]:
            v = ctx.atom(ValSort, 'v')
            a0[k] = v
            old[k] = v
        vals = [ctx.atom(ValSort, 'n'), ctx.atom(ValSort, 'n')]
        if cfg.get('buffered'):
            fs.buffered = ctx.bool('buffered')       # small data stays in the writer's userspace buffer until flush/close
        OPS = _ops()
        sch = Sched(lambda: ctx.bool('pre'), lambda n: ctx.choice(n, 'nx'), cfg.get('preemptions', 2))
        fs.hook = lambda name, args: sch.point(name)
        handles = []
        for o in ops:
            if o == 'open':
                sch.spawn(o, lambda: mk() and None)
            elif o == 'open_cached':
                sch.spawn(o, lambda: make_cached(kind, 'memo') and None)
            else:
                h = mk()                           # each process has its own handle (opened beforehand)
                handles.append(h)
                sch.spawn(o, (lambda f, hh: (lambda: f(hh, vals)))(OPS[o], h))
        if sql:
            self.shim.hook = self.shim.read_hook = lambda name: sch.point(name)
        try:
            sch.run()
        finally:
            fs.hook = None
            if sql:
                self.shim.hook = self.shim.read_hook = None
        results = [p['res'] for p in sch.procs]
        try:
            b = mk()
            final = dict(b.items())
        except (PathPruned, Inconclusive):
            raise
        except Exception as e:
            ctx.check(False, 'C14:no-lost-entry', {'kind': 'final read raised %s' % type(e).__name__})
            final = None
        self.judge(ctx, ops, results, old, vals, final, {})

    # ---- confirmation on the real file system: real threads, hand-over at the real os calls, sweep of pre-emption points
    def replay(self, assignment, label):
        if self.cfg['kind'].startswith('sql'):
            # the symbolic run already used the real sqlite3 on a real database file; the confirmation re-runs the same
            # schedule with plain values (no proxies) on a fresh database
            from ksym.core import ReplayCtx
            self.shim, undo = sqlshim.install()
            self.scratch = tempfile.mkdtemp(prefix='ksym_sqlreplay_')
            try:
                r = ReplayCtx(assignment).run(self.fn)
            finally:
                undo()
                shutil.rmtree(self.scratch, ignore_errors=True)
            failed = [f for f in r.failed if f[0].split(':')[0] == 'C14']
            return bool(failed), {'failed': [[f[0], f[1]] for f in r.failed[:5]], 'diverged': r.diverged[:5]}
        if not hasattr(self, '_runs'):
            self._runs = []          # [(schedule, labels)]
            self._gen = self.real_schedules()
        if self.cfg.get('canary'):
            return True, {'canary': 'negated oracle (symbolic only)'}
        hits = [s for s in self._runs if label in s[1]]
        while not hits:
            try:
                s_ = next(self._gen)
            except StopIteration:
                break
            self._runs.append(s_)
            if label in s_[1]:
                hits = [s_]
        return bool(hits), {'real_schedules_run': len(self._runs), 'confirming_schedule': [h[0] for h in hits[:2]]}

    def real_schedules(self):
        """real executions, single pre-emptions first, then pairs; duplicates (same effective schedule) skipped"""
        n_est = 70
        tried = set()
        plans = [()] + [(i,) for i in range(n_est)] + [(i, j) for i in range(n_est) for j in range(i + 1, min(i + 16, n_est))]
        count = 0
        for plan in plans:
            for first in range(len(self.cfg['ops'])):
                r = self.real_run(first, plan)
                key = (first, r['effective'])
                if key in tried:
                    continue
                tried.add(key)
                count += 1
                yield ((first, plan), r['labels'])
                if count > 1200:
                    return

    def real_run(self, first, plan):
        """one real execution: threads over the real FS, pre-empting the running thread at the global yield indices in plan"""
        import builtins
        import klepto._archives as A
        cfg = self.cfg
        kind, ops = cfg['kind'], cfg['ops']
        d = tempfile.mkdtemp(prefix='ksym_conc_')
        cwd = os.getcwd()
        saved = {}
        labels = []

        class RC:                 # minimal ctx for judge(): concrete checks
            def check(self, cond, label, info=None):
                if not bool(cond):
                    labels.append(label)
                return bool(cond)
        try:
            os.chdir(d)
            a0 = arch.make(kind, 'memo')
            old = {k: 'old_' + k for k in ('a', 'b')[:cfg.get('prior', 2)]}
            for k, v in old.items():
                a0[k] = v
            vals = ['new_1', 'new_2']
            OPS = _ops()
            counter = [0]
            eff = []

            def pre():
                counter[0] += 1
                if (counter[0] - 1) in plan:
                    eff.append(counter[0] - 1)
                    return True
                return False
            nxt = [first]

            def decide_next(n):
                v = nxt[0] % n
                nxt[0] = 0
                return v
            sch = Sched(pre, decide_next, len(plan))
            names = ('mkdir', 'rmdir', 'unlink', 'remove', 'rename', 'replace', 'scandir', 'listdir', 'stat', 'lstat', 'open')

            def wrap(fn, name):
                def w(*a, **k):
                    sch.point(name)
                    return fn(*a, **k)
                return w
            for n in names:
                saved[n] = getattr(os, n)
                setattr(os, n, wrap(saved[n], n))
            real_open = builtins.open

            class YFile:
                """real file object with a yield point before flush/close (where buffered data reaches the file)"""

                def __init__(self, f):
                    self._f = f

                def __enter__(self):
                    return self

                def __exit__(self, *a):
                    self.close()

                def close(self):
                    if not self._f.closed and 'w' in getattr(self._f, 'mode', ''):
                        sch.point('close')
                    self._f.close()

                def __getattr__(self, n):
                    return getattr(self._f, n)

                def __iter__(self):
                    return iter(self._f)

            def yopen(*a, **k):
                sch.point('open')
                return YFile(real_open(*a, **k))
            A.open = yopen
            for o in ops:
                if o == 'open':
                    sch.spawn(o, lambda: arch.make(kind, 'memo') and None)
                elif o == 'open_cached':
                    sch.spawn(o, lambda: make_cached(kind, 'memo') and None)
                else:
                    h = arch.make(kind, 'memo')
                    sch.spawn(o, (lambda f, hh: (lambda: f(hh, vals)))(OPS[o], h))
            sch.run()
            for n in names:
                setattr(os, n, saved[n])
            saved = {}
            A.__dict__.pop('open', None)
            results = [p['res'] for p in sch.procs]
            try:
                final = dict(arch.make(kind, 'memo').items())
            except Exception:
                labels.append('C14:no-lost-entry')
                final = None
            self.judge(RC(), ops, results, old, vals, final, {})
            return {'labels': labels, 'effective': tuple(eff)}
        finally:
            for n, f in saved.items():
                setattr(os, n, f)
            import klepto._archives as A2
            A2.__dict__.pop('open', None)
            os.chdir(cwd)
            shutil.rmtree(d, ignore_errors=True)


def make_cached(kind, name):
    """the default way of opening an archive: an in-memory cache in front of it (cached=True)"""
    import klepto.archives as KA
    if kind == 'file':
        return KA.file_archive(name + '.pkl')
    if kind == 'filejson':
        return KA.file_archive(name + '.json', protocol='json')
    if kind == 'dir':
        return KA.dir_archive(name)
    if kind == 'dirjson':
        return KA.dir_archive(name, protocol='json')
    raise ValueError(kind)


def build(cfg):
    return Conc(cfg)


def plan(prop, tier):
    q = tier == 'quick'
    cfgs = []
    for kind, pairs in (('dir', PAIRS_DIR), ('file', PAIRS_FILE)):
        for ops in pairs:
            cfgs.append({'name': 'conc/%s/%s' % (kind, '|'.join(ops)), 'kind': kind, 'ops': list(ops), 'props': ['C14'],
                         'preemptions': 2 if q else 3, 'weight': 5 if 'asdict' in ops or 'load' in ops else 2})
    if not q:
        for kind in ('dirjson', 'filejson'):
            for ops in (PAIRS_DIR if kind.startswith('dir') else PAIRS_FILE)[:8]:
                cfgs.append({'name': 'conc/%s/%s' % (kind, '|'.join(ops)), 'kind': kind, 'ops': list(ops), 'props': ['C14'], 'preemptions': 2})
    for ops in PAIRS_SQL:
        cfgs.append({'name': 'conc/sqlfile/%s' % '|'.join(ops), 'kind': 'sqlfile', 'ops': list(ops), 'props': ['C14'],
                     'preemptions': 2 if q else 3, 'weight': 3})
    for kind in ('dir', 'file'):
        for ops in PAIRS_OPEN:
            for prior in (0, 2):
                if prior == 0 and ops[0] != 'set_c':
                    continue
                cfgs.append({'name': 'conc/%s/%s/prior%d' % (kind, '|'.join(ops), prior), 'kind': kind, 'ops': list(ops), 'props': ['C14'],
                             'prior': prior, 'preemptions': 2 if q else 3, 'weight': 3})
        # written data may sit in the writer's buffer until close: a reader must still see a complete dictionary
        for ops in (('set_c', 'asdict'), ('set_a', 'get_a'), ('set_c', 'open_cached')):
            cfgs.append({'name': 'conc/%s/%s/buffered' % (kind, '|'.join(ops)), 'kind': kind, 'ops': list(ops), 'props': ['C14'],
                         'buffered': True, 'preemptions': 2, 'weight': 5})
    for ops in TRIPLES_DIR:
        cfgs.append({'name': 'conc/dir/%s' % '|'.join(ops), 'kind': 'dir', 'ops': list(ops), 'props': ['C14'],
                     'preemptions': 1 if q else 2, 'weight': 10})
    cfgs.append({'name': 'canary:conc/dir/set_a|get_a', 'kind': 'dir', 'ops': ['set_a', 'get_a'], 'props': ['C14'], 'preemptions': 1, 'canary': True})
    return cfgs
