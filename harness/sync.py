"""C08: cache/archive synchronisation algebra on the real klepto.archives.cache.

Symbolic sequences of operations with symbolic keys and values; a triple of plain dicts (memory, archive
objects, which one is current/parked) updated by the rules written in the statement is the oracle.
"""
from ksym.core import Ctx, And, Or, Not, ArgSort, ValSort, PathPruned, Inconclusive

OPS = ('set', 'del', 'pop', 'aset', 'adel', 'dump', 'dumpk', 'load', 'loadk', 'sync', 'syncclear',
       'off', 'on', 'open', 'drop', 'assign')


def same_dict(real, want):
    """equality of a real dict with the oracle dict as a condition (keys/values may be atoms)"""
    if len(real) != len(want):
        return False
    conds = []
    for k, v in want.items():
        if k not in real:
            return False
        conds.append(real[k] == v)
    return And(*conds)


class Sync:
    def __init__(self, cfg):
        self.cfg = cfg

    def install(self):
        return lambda: None

    def signature(self, label, info):
        sig = {'label': label, 'backend': self.cfg['backend']}
        for k in ('op', 'kind'):
            if info and k in info:
                sig[k] = info[k]
        return sig

    def render(self, a):
        v = a.get('vars', {})
        out = dict(v)
        for k in list(out):
            if k.startswith('op'):
                out[k] = OPS[out[k]] if isinstance(out[k], int) and out[k] < len(OPS) else out[k]
        return out

    def fn(self, ctx):
        import klepto.archives as KA
        cfg = self.cfg
        canary = cfg.get('canary')
        a1 = KA.dict_archive('a1', cached=False)
        b = KA.dict_archive('b', cached=False)
        if cfg['backend'] == 'dict':
            c = KA.cache(archive=a1)
            cur = 'a1'
        else:
            c = KA.cache()
            cur = None
        objs = {'a1': a1, 'b': b}
        cont = {'a1': {}, 'b': {}}
        M = {}
        parked = None
        first = cfg.get('first')
        for i in range(cfg['L']):
            if first is not None and i < len(first):
                op = first[i]
                ctx.choice(1, 'op')
            else:
                op = OPS[ctx.choice(len(OPS), 'op')]
            k = v = None
            if op in ('set', 'del', 'pop', 'aset', 'adel', 'dumpk', 'loadk'):
                k = ctx.atom(ArgSort, 'k')
            if op in ('set', 'aset'):
                v = None if (cfg.get('nonevals') and ctx.bool('vnone')) else ctx.atom(ValSort, 'v')      # a stored value may be None
            exc = None
            ret = None
            try:
                if op == 'set':
                    c[k] = v
                elif op == 'del':
                    del c[k]
                elif op == 'pop':
                    ret = c.pop(k)
                elif op == 'aset':
                    a1[k] = v
                elif op == 'adel':
                    del a1[k]
                elif op == 'dump':
                    c.dump()
                elif op == 'dumpk':
                    c.dump(k)
                elif op == 'load':
                    c.load()
                elif op == 'loadk':
                    c.load(k)
                elif op == 'sync':
                    c.sync()
                elif op == 'syncclear':
                    c.sync(clear=True)
                elif op == 'off':
                    c.archived(False)
                elif op == 'on':
                    c.archived(True)
                elif op == 'open':
                    c.open(b)
                elif op == 'drop':
                    c.drop()
                elif op == 'assign':
                    c.archive = b          # what the decorators' f.archive(b) does
            except (PathPruned, Inconclusive):
                raise
            except Exception as e:
                exc = e
            # ---- oracle, from the statement
            want_exc = None
            A = cont[cur] if cur else None          # current archive contents (None = null archive)
            if op == 'set':
                M[k] = v
            elif op in ('del', 'pop'):
                if k in M:
                    want_ret = M.pop(k)
                    if op == 'pop':
                        ctx.check(ret == want_ret if exc is None else False, 'C08:pop-value', {'op': op, 'kind': 'wrong value'})
                else:
                    want_exc = KeyError
            elif op == 'aset':
                cont['a1'][k] = v
            elif op == 'adel':
                if k in cont['a1']:
                    del cont['a1'][k]
                else:
                    want_exc = KeyError
            elif op == 'dump':
                if A is not None:
                    A.update(M)
            elif op == 'dumpk':
                if A is not None and k in M:
                    A[k] = M[k]
            elif op == 'load':
                if A is not None:
                    M.update(A)
            elif op == 'loadk':
                if A is not None and k in A:
                    M[k] = A[k]
            elif op == 'sync':
                if A is not None:
                    A.update(M)
                    M.update(A)
            elif op == 'syncclear':
                if A is not None:
                    A.clear()
                    A.update(M)
            elif op == 'off':
                if cur is not None:
                    parked, cur = cur, None
            elif op == 'on':
                if parked is not None:
                    cur, parked = parked, None
                elif cur is None:
                    want_exc = ValueError
            elif op in ('open', 'assign'):
                cur, parked = 'b', None
            elif op == 'drop':
                if parked is None and cur is None:
                    want_exc = ValueError       # nothing to drop: archived(True) reports 'no valid archive'
                cur, parked = None, None
            info = {'op': op}
            if want_exc is None:
                ctx.check(exc is None, 'C08:no-exception', {'op': op, 'kind': 'raised %s' % type(exc).__name__})
            else:
                ctx.check(isinstance(exc, want_exc), 'C08:exception', {'op': op, 'kind': 'expected %s got %s' % (want_exc.__name__, type(exc).__name__)})
            if exc is not None and want_exc is None:
                return
            # ---- compare all real containers with the oracle
            ok = same_dict(dict(c), M)
            if canary and op == 'load':
                ok = Not(ok)
            ctx.check(ok, 'C08:memory', {'op': op, 'kind': 'memory differs'})
            for name in ('a1', 'b'):
                ctx.check(same_dict(dict(objs[name].items()), cont[name]), 'C08:archive', {'op': op, 'kind': 'archive %s differs' % name})
            ctx.check(c.archived() == (cur is not None), 'C08:flag', {'op': op, 'kind': 'archived() wrong'})
            if cur is None:
                ctx.check(len(c.archive) == 0 and len(dict(c.archive.items())) == 0, 'C08:null-empty', {'op': op, 'kind': 'null archive not empty'})
            else:
                ctx.check(c.archive is objs[cur], 'C08:current', {'op': op, 'kind': 'wrong archive object current'})


def build(cfg):
    return Sync(cfg)


def plan(prop, tier):
    q = tier == 'quick'
    L = 4 if q else 5
    cfgs = []
    for backend in ('dict', 'null'):
        for first in OPS:
            seconds = (None,) if q else OPS
            for second in seconds:
                fl = [first] if second is None else [first, second]
                cfgs.append({'name': 'sync/%s/first=%s/L%d' % (backend, '+'.join(fl), L), 'backend': backend, 'first': fl, 'L': L,
                             'props': ['C08'], 'weight': 2 if backend == 'dict' else 1})
    for first in ('set', 'aset'):
        for second in OPS:
            cfgs.append({'name': 'sync/dict/first=%s+%s/L%d/none-values' % (first, second, 3 if q else 4), 'backend': 'dict', 'first': [first, second],
                         'L': 3 if q else 4, 'nonevals': True, 'props': ['C08'], 'weight': 1})
    cfgs.append({'name': 'canary:sync/dict/L3', 'backend': 'dict', 'first': ['aset'], 'L': 3, 'props': ['C08'], 'canary': True})
    return cfgs
