"""pure string kernels of the real dir_archive / sqltable_archive code, decided by CrossHair (C03-A).

Each function below is a CrossHair contract (PEP 316 docstring) over calls of the *real* klepto functions
(`dir_archive._fname/_getdir/_lsdir/_getkey`, `_sqlname`), imported from the tree under test on every run.
Keys are symbolic `str`s of bounded length, which is what the atom-based ksym harness cannot express
(its atoms are opaque tokens; here the characters are symbolic).  tools/kernels.py runs one CrossHair process
per condition, treats anything but "Confirmed over all paths" as inconclusive and replays every
counterexample on a real dir_archive on the real file system before it is believed.

KERNELS: name -> dict(expect='confirmed' | 'known' | 'counterexample', replay=fn(args)->(violated, detail),
                      classify=fn(args)->known-finding class or None)
"""
import os
import sys

REPO = os.environ.get('KLEPTO_VERIF_REPO', '/repo')
if REPO not in sys.path:
    sys.path.insert(0, REPO)
import klepto._archives as A  # noqa: E402

_DA = A.dir_archive
_fname = _DA._fname


class _Dir:
    """the methods of the real dir_archive that only compute names, over a walk() that lists what a real
    directory would list after `mkdir -p root/K_<fname>` (the first path component below root)"""
    _fname = _DA._fname
    _getdir = _DA._getdir
    _lsdir = _DA._lsdir
    _getkey = _DA._getkey

    def __init__(self, root='root'):
        self.__state__ = {'id': root}
        self._args = 'input.pkl'

    def _hasinput(self, root):      # str keys whose file name equals the key are stored without an input file
        return False


def _listing(o, k):
    """what walk(root, 'K_*', folders only, no recursion) returns after storing key k"""
    name = A.PREFIX + o._fname(k)
    first = name.split('/')[0]
    return [os.path.join(o.__state__['id'], first)]


def _with_walk(o, k, f):
    saved = A.walk
    lst = _listing(o, k)
    A.walk = lambda *a, **kw: list(lst)
    try:
        return f()
    finally:
        A.walk = saved


# ---------------------------------------------------------------------------------------------- conditions
def fname_injective(k1: str, k2: str) -> bool:
    """
    Distinct dash-free string keys get distinct directory names.

    pre: len(k1) <= 3 and len(k2) <= 3
    pre: k1 != k2
    pre: '-' not in k1 and '-' not in k2
    post: _
    """
    return _fname(None, k1) != _fname(None, k2)


def fname_injective_dash(k1: str, k2: str) -> bool:
    """
    Distinct string keys get distinct directory names (known finding: '-' is mapped onto '_').

    pre: len(k1) <= 3 and len(k2) <= 3
    pre: k1 != k2
    post: _
    """
    return _fname(None, k1) != _fname(None, k2)


def fname_canary(k1: str, k2: str) -> bool:
    """
    Reachability twin: without the distinctness precondition a counterexample must be found.

    pre: len(k1) <= 3 and len(k2) <= 3
    post: _
    """
    return _fname(None, k1) != _fname(None, k2)


def key_listed(k: str) -> bool:
    """
    The directory a separator-free string key is stored in is listed by _lsdir and maps back to the key.

    pre: 1 <= len(k) <= 4
    pre: '/' not in k and '-' not in k and chr(0) not in k
    post: _
    """
    o = _Dir()
    return _with_walk(o, k, lambda: [o._getkey(d) for d in o._lsdir()] == [k])


def key_listed_sep(k: str) -> bool:
    """
    Same for every dash-free string key (known finding: a key containing '/' is stored in nested directories).

    pre: 1 <= len(k) <= 3
    pre: '-' not in k and chr(0) not in k
    post: _
    """
    o = _Dir()
    return _with_walk(o, k, lambda: [o._getkey(d) for d in o._lsdir()] == [k])


def getdir_inside_root(k: str) -> bool:
    """
    The directory of a separator-free key is a direct child of the archive's root named K_<file name>.

    pre: len(k) <= 4
    pre: '/' not in k
    post: _
    """
    o = _Dir()
    d = o._getdir(k)
    return os.path.dirname(d) == 'root' and os.path.basename(d) == A.PREFIX + o._fname(k)


def sqlname_roundtrip(t: str) -> bool:
    """
    _sqlname splits 'database?table=name' back into the parts it was built from (used by copy() and the
    public constructors to address the same table).

    pre: 1 <= len(t) <= 3
    post: _
    """
    for db in ('sqlite:///:memory:', 'sqlite:///x.db', 'sqlite:////tmp/a/b.db', 'mysql://u:p@h/db'):
        if A._sqlname(db + '?table=' + t) != (db, t):
            return False
    return True


def sqlname_plain(t: str) -> bool:
    """
    A bare table name (no '/', not starting with the table= prefix) is returned as the table of the default database.

    pre: 1 <= len(t) <= 4
    pre: '/' not in t and not t.startswith('table=') and not t.startswith('?')
    post: _
    """
    return A._sqlname(t) == (None, t)


# ---------------------------------------------------------------------------------------------- replays
def _real_dir(f):
    import shutil
    import tempfile
    import klepto.archives as KA
    d = tempfile.mkdtemp(prefix='ksym_kernel_')
    try:
        return f(KA.dir_archive(os.path.join(d, 'arch'), cached=False))
    finally:
        shutil.rmtree(d, ignore_errors=True)


def replay_alias(args):
    k1, k2 = args
    if k1 == k2:
        return True, 'canary: equal keys'          # only the canary reaches this

    def run(a):
        a[k1] = 'v1'
        a[k2] = 'v2'
        got = (len(a), a.get(k1), a.get(k2))
        return got != (2, 'v1', 'v2'), 'len/get after storing %r and %r: %r' % (k1, k2, got)
    return _real_dir(run)


def replay_listed(args):
    (k,) = args

    def run(a):
        a[k] = 'v'
        ks = list(a.keys())
        return ks != [k] or len(a) != 1, 'keys() after storing %r: %r (len %d)' % (k, ks, len(a))
    return _real_dir(run)


def replay_sqlname(args):
    (t,) = args
    for db in ('sqlite:///:memory:', 'sqlite:///x.db', 'sqlite:////tmp/a/b.db', 'mysql://u:p@h/db'):
        if A._sqlname(db + '?table=' + t) != (db, t):
            return True, '_sqlname(%r) = %r' % (db + '?table=' + t, A._sqlname(db + '?table=' + t))
    return False, 'ok'


def replay_sqlplain(args):
    (t,) = args
    return A._sqlname(t) != (None, t), '_sqlname(%r) = %r' % (t, A._sqlname(t))


def replay_getdir(args):
    (k,) = args
    o = _Dir()
    d = o._getdir(k)
    bad = not (os.path.dirname(d) == 'root' and os.path.basename(d) == A.PREFIX + o._fname(k))
    return bad, '_getdir(%r) = %r' % (k, d)


KERNELS = {
    'fname_injective': dict(fn=fname_injective, expect='confirmed', replay=replay_alias, classify=lambda a: None),
    'fname_injective_dash': dict(fn=fname_injective_dash, expect='known', replay=replay_alias,
                                 classify=lambda a: 'dash-underscore' if ('-' in a[0] or '-' in a[1]) and a[0].replace('-', '_') == a[1].replace('-', '_') else None),
    'fname_canary': dict(fn=fname_canary, expect='counterexample', replay=replay_alias, classify=lambda a: None),
    'key_listed': dict(fn=key_listed, expect='confirmed', replay=replay_listed, classify=lambda a: None),
    'key_listed_sep': dict(fn=key_listed_sep, expect='known', replay=replay_listed,
                           classify=lambda a: 'path-separator' if '/' in a[0] else None),
    'getdir_inside_root': dict(fn=getdir_inside_root, expect='confirmed', replay=replay_getdir, classify=lambda a: None),
    'sqlname_roundtrip': dict(fn=sqlname_roundtrip, expect='confirmed', replay=replay_sqlname, classify=lambda a: None),
    'sqlname_plain': dict(fn=sqlname_plain, expect='confirmed', replay=replay_sqlplain, classify=lambda a: None),
}
