#!/usr/bin/env python3
"""regenerate MANIFEST.json from props.py (single source of truth for what is claimed)"""
import json, os, sys
HERE = os.path.dirname(os.path.abspath(__file__))
sys.path.insert(0, HERE)
from props import REGISTRY, NOT_APPLICABLE, TEXT

checks = []
for pid in sorted(REGISTRY):
    m = REGISTRY[pid]
    t = TEXT[pid]
    checks.append({
        'property_id': pid,
        'quick_cmd': './check %s quick' % pid,
        'thorough_cmd': './check %s thorough' % pid,
        'evidence_file': 'evidence/%s.json' % pid,
        'replay_cmd_template': './check --replay {path}',
        'engine': m.get('engine', 'ksym'),
        'level_claimed': {'category': m.get('level', 'model_checking'), 'text': t['level'], 'design_ref': 'DESIGN.md §' + m.get('design_ref', '6')},
        'level_note': t['note'],
        'technique': t['technique'],
    })
man = {
    'version': 1,
    'setup_cmd': './setup.sh',
    'hooks': {'guard': 'KLEPTO_VERIF', 'enable': 'no source hooks: stubs are installed by assigning module globals of the imported real modules in the checking process (KLEPTO_VERIF=1 is exported by the checks for information only)',
              'baseline_off_cmd': 'cd /repo && /venv/bin/python -m pytest -ra -q -p no:cacheprovider --timeout=900 --continue-on-collection-errors',
              'source_commits': [], 'add_only': True},
    'engines': [
        {'name': 'ksym', 'path': 'ksym/', 'serves_properties': sorted(p for p in REGISTRY if REGISTRY[p].get('engine', 'ksym') == 'ksym'),
         'kind_free_text': 'proxy-based dynamic symbolic execution of the real klepto code on CPython; branch feasibility and property obligations decided by z3 (QF_UF+LIA); replay-DFS to closure; counterexamples replayed on un-stubbed code'},
        {'name': 'crosshair', 'path': 'harness/kernels_crosshair.py', 'serves_properties': ['C03'],
         'kind_free_text': 'CrossHair 0.0.110 (symbolic execution of Python with z3) on the pure string kernels of dir_archive/_sqlname with symbolic str keys (C03-A), run by tools/kernels.py as the first step of ./check C03; counterexamples replayed on a real dir_archive'},
    ],
    'checks': checks,
    'not_applicable': NOT_APPLICABLE,
    'notes': 'All checks: exit 0 = every obligation discharged on a closed exploration; exit 1 = replay-confirmed violation not listed in known_findings.json; exit 2 = inconclusive / harness error (never reported as success). Sub-claims outside the technique are listed per property in evidence.assumptions and DESIGN.md §7.',
}
json.dump(man, open(os.path.join(HERE, 'MANIFEST.json'), 'w'), indent=1)
print('MANIFEST.json: %d checks' % len(checks))
