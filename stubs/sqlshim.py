"""thin codec around the real sqlite3 so that symbolic values can be stored as rows.

klepto's sqlite fallback does `import sqlite3 as db` inside __init__; while installed, sys.modules['sqlite3']
is this shim.  Everything is delegated to the real sqlite3 (real SQL, real commits); only parameter values
that are atoms are encoded as marker strings on the way in and decoded on the way out."""
import sys
import sqlite3 as _real
from ksym.values import Sym, CVal, REGISTRY

MARK = '\x00SYM:'


CMARK = '\x00CVAL:'


def _enc(v):
    if isinstance(v, Sym):
        return MARK + str(REGISTRY.put(v))
    if isinstance(v, CVal):                 # replay mode: marshal the concrete stand-in of an atom
        return CMARK + v.tag
    return v


def _dec(v):
    if isinstance(v, str) and v.startswith(MARK):
        return REGISTRY.get(int(v[len(MARK):]))
    if isinstance(v, str) and v.startswith(CMARK):
        return CVal(v[len(CMARK):])
    return v


class Cur:
    def __init__(self, cur, shim=None):
        self._c = cur
        self._shim = shim

    def execute(self, sql, params=()):
        if self._shim is not None and self._shim.hook is not None and not sql.lstrip().lower().startswith('select'):
            self._shim.hook('sql-execute')
        elif self._shim is not None and self._shim.read_hook is not None:
            self._shim.read_hook('sqlread')
        self._c.execute(sql, tuple(_enc(p) for p in params))
        return self

    def executescript(self, s):
        self._c.executescript(s)
        return self

    def __iter__(self):
        for row in self._c:
            yield tuple(_dec(x) for x in row)

    def fetchall(self):
        return [tuple(_dec(x) for x in row) for row in self._c.fetchall()]

    def __getattr__(self, n):
        return getattr(self._c, n)


class Conn:
    def __init__(self, conn, shim=None):
        self._c = conn
        self._shim = shim

    def cursor(self):
        return Cur(self._c.cursor(), self._shim)

    def execute(self, sql, params=()):
        return Cur(self._c.cursor(), self._shim).execute(sql, params)

    def commit(self):
        if self._shim is not None and self._shim.hook is not None:
            self._shim.hook('sql-commit')
        self._c.commit()

    def close(self):
        self._c.close()

    def __getattr__(self, n):
        return getattr(self._c, n)


class Shim:
    def __init__(self):
        self.conns = []
        self.hook = None        # crash harness: called before every modifying execute / commit
        self.read_hook = None   # concurrency harness: called before every SELECT as well

    def connect(self, name, *a, **k):
        k.setdefault('timeout', 0.3)        # a second connection that finds the database locked fails fast instead of waiting 5 s
        k.setdefault('check_same_thread', False)   # C14 runs each 'process' as a thread over a connection opened beforehand
        c = Conn(_real.connect(name, *a, **k), self)
        self.conns.append(c)
        return c

    def __getattr__(self, n):
        return getattr(_real, n)

    def close_all(self):
        for c in self.conns:
            try:
                c.close()
            except Exception:
                pass
        self.conns = []


def install():
    shim = Shim()
    saved = sys.modules.get('sqlite3')
    sys.modules['sqlite3'] = shim

    def undo():
        shim.close_all()
        sys.modules['sqlite3'] = saved
    return shim, undo


STUBS = ['sqlite3: the real sqlite3 (real SQL, :memory: or scratch db file); atoms among statement parameters are encoded as marker strings and decoded in result rows; busy timeout 0.3 s']
