"""model POSIX file system + re-binding of the real library code klepto uses onto it.

Only the *system-call level* is modelled (inode tree, mkdir/rmdir/unlink/rename/open/write/read/close/
scandir/stat with POSIX error rules).  Everything above it is the real code of os.py, posixpath,
genericpath, shutil, fnmatch and pox, instantiated from its own code objects over a namespace that points at
the model (`rebind_module`).  Every syscall goes through `FS.sys`, which is the crash point (C13), the yield
point (C14) and the log.
"""
import errno
import fnmatch
import genericpath
import os
import posixpath
import shutil
import stat as statmod
import types

MUTATING = ('mkdir', 'rmdir', 'unlink', 'rename', 'creat', 'trunc', 'write', 'close')


class Dir(dict):
    pass


class File:
    __slots__ = ('chunks', 'mtime')

    def __init__(self):
        self.chunks = []
        self.mtime = 0


class FS:
    def __init__(self, cwd='/w'):
        self.root = Dir()
        self.log = []
        self.cwd = cwd
        self.hook = None            # called as hook(name, args) before the effect of every syscall
        self.nsys = 0
        self.buffered = False       # True: written data stays in the (userspace) buffer of the file object until flush/close
        self.clock = 0              # logical time: advanced by every mutating syscall (mtime/ctime of the touched inode)
        node = self.root
        for c in [c for c in cwd.split('/') if c]:
            node[c] = Dir()
            node = node[c]

    # -- plumbing
    def sys(self, name, *a):
        self.nsys += 1
        if self.hook is not None:
            self.hook(name, a)
        self.log.append((name,) + a)
        if name in MUTATING:
            self.clock += 1

    def _split(self, p):
        p = os.fspath(p)
        p = posixpath.normpath(posixpath.join(self.cwd, p))
        return [c for c in p.split('/') if c]

    def _get(self, p):
        n = self.root
        for c in self._split(p):
            if not isinstance(n, Dir) or c not in n:
                return None
            n = n[c]
        return n

    def _parent(self, p):
        parts = self._split(p)
        if not parts:
            raise OSError(errno.EBUSY, 'root', p)
        n = self.root
        for c in parts[:-1]:
            if not isinstance(n, Dir):
                raise NotADirectoryError(errno.ENOTDIR, 'Not a directory', p)
            if c not in n:
                raise FileNotFoundError(errno.ENOENT, 'No such file or directory', p)
            n = n[c]
        if not isinstance(n, Dir):
            raise NotADirectoryError(errno.ENOTDIR, 'Not a directory', p)
        return n, parts[-1]

    # -- syscalls
    def mkdir(self, p, mode=0o777):
        self.sys('mkdir', p)
        d, n = self._parent(p)
        if n in d:
            raise FileExistsError(errno.EEXIST, 'File exists', p)
        d[n] = Dir()

    def rmdir(self, p):
        self.sys('rmdir', p)
        d, n = self._parent(p)
        x = d.get(n)
        if x is None:
            raise FileNotFoundError(errno.ENOENT, 'No such file or directory', p)
        if not isinstance(x, Dir):
            raise NotADirectoryError(errno.ENOTDIR, 'Not a directory', p)
        if x:
            raise OSError(errno.ENOTEMPTY, 'Directory not empty', p)
        del d[n]

    def unlink(self, p):
        self.sys('unlink', p)
        d, n = self._parent(p)
        x = d.get(n)
        if x is None:
            raise FileNotFoundError(errno.ENOENT, 'No such file or directory', p)
        if isinstance(x, Dir):
            raise IsADirectoryError(errno.EISDIR, 'Is a directory', p)
        del d[n]

    def rename(self, a, b):
        self.sys('rename', a, b)
        da, na = self._parent(a)
        db, nb = self._parent(b)
        if na not in da:
            raise FileNotFoundError(errno.ENOENT, 'No such file or directory', a)
        src, dst = da[na], db.get(nb)
        if dst is not None and dst is not src:
            if isinstance(src, Dir):
                if not isinstance(dst, Dir):
                    raise NotADirectoryError(errno.ENOTDIR, 'Not a directory', b)
                if dst:
                    raise OSError(errno.ENOTEMPTY, 'Directory not empty', b)
            elif isinstance(dst, Dir):
                raise IsADirectoryError(errno.EISDIR, 'Is a directory', b)
        del da[na]
        db[nb] = src

    def stat(self, p):
        self.sys('stat', p)
        n = self._get(p)
        if n is None:
            raise FileNotFoundError(errno.ENOENT, 'No such file or directory', p)
        return Stat(n, self)

    def scandir(self, p):
        self.sys('scandir', p)
        n = self._get(p)
        if n is None:
            raise FileNotFoundError(errno.ENOENT, 'No such file or directory', p)
        if not isinstance(n, Dir):
            raise NotADirectoryError(errno.ENOTDIR, 'Not a directory', p)
        return [(k, v) for k, v in n.items()]       # atomic snapshot of one directory

    def open(self, p, mode='r'):
        if 'w' in mode:
            d, n = None, None
            x = self._get(p)
            self.sys('creat' if x is None else 'trunc', p)
            d, n = self._parent(p)
            x = d.get(n)
            if isinstance(x, Dir):
                raise IsADirectoryError(errno.EISDIR, 'Is a directory', p)
            if x is None:
                x = d[n] = File()
            else:
                x.chunks = []
            x.mtime = self.clock
            return FakeFile(self, p, mode, x)
        self.sys('open', p)
        x = self._get(p)
        if x is None:
            raise FileNotFoundError(errno.ENOENT, 'No such file or directory', p)
        if isinstance(x, Dir):
            raise IsADirectoryError(errno.EISDIR, 'Is a directory', p)
        return FakeFile(self, p, mode, x)

    # -- inspection for harnesses
    def tree(self, p='/'):
        def r(n):
            if isinstance(n, Dir):
                return {k: r(v) for k, v in sorted(n.items())}
            return list(n.chunks)
        return r(self._get(p))


class Stat:
    """os.stat_result of the model: inode identity, size in chunks, modification time on the model's logical clock"""

    def __init__(self, node, fs=None):
        self.st_mode = (statmod.S_IFDIR if isinstance(node, Dir) else statmod.S_IFREG) | 0o755
        self.st_ino = id(node)
        self.st_dev = 1
        self.st_nlink = 1
        self.st_uid = self.st_gid = 0
        self.st_size = 0 if isinstance(node, Dir) else len(node.chunks)
        t = getattr(node, 'mtime', 0)
        self.st_mtime = self.st_atime = self.st_ctime = float(t)
        self.st_mtime_ns = self.st_atime_ns = self.st_ctime_ns = int(t) * 1000000000

    def __iter__(self):
        return iter((self.st_mode, self.st_ino, self.st_dev, self.st_nlink, self.st_uid, self.st_gid, self.st_size,
                     int(self.st_atime), int(self.st_mtime), int(self.st_ctime)))

    def __getitem__(self, i):
        return tuple(self)[i]


class Entry:
    def __init__(self, d, name, node):
        self.name = name
        self.path = posixpath.join(d, name)
        self.node = node

    def is_dir(self, follow_symlinks=True):
        return isinstance(self.node, Dir)

    def is_file(self, follow_symlinks=True):
        return isinstance(self.node, File)

    def is_symlink(self):
        return False

    def is_junction(self):
        return False

    def stat(self, follow_symlinks=True):
        return Stat(self.node)

    def inode(self):
        return id(self.node)

    def __fspath__(self):
        return self.path


class ScanIt:
    def __init__(self, entries):
        self.it = iter(entries)

    def __iter__(self):
        return self

    def __next__(self):
        return next(self.it)

    def __enter__(self):
        return self

    def __exit__(self, *a):
        pass

    def close(self):
        pass


class FakeFile:
    """model file object.  Unbuffered (fs.buffered False: what io does for data larger than its buffer): each write()
    is one write syscall appending a chunk to the inode.  Buffered (fs.buffered True: small data): write() only
    fills the userspace buffer; the write syscalls are issued by flush()/close(), so a process that dies - or
    renames the file - before close() leaves the data out of the file."""

    def __init__(self, fs, p, mode, inode):
        self.fs, self.p, self.mode, self.inode = fs, p, mode, inode
        self.closed = False
        self.name = p
        self.pending = []
        self.buffered = fs.buffered

    def __enter__(self):
        return self

    def __exit__(self, *a):
        self.close()

    def _sync(self):
        while self.pending:
            self.fs.sys('write', self.p)
            self.inode.chunks.append(self.pending.pop(0))
            self.inode.mtime = self.fs.clock

    def close(self):
        if not self.closed:
            if 'w' in self.mode:
                self._sync()
            self.closed = True
            if 'w' in self.mode:
                self.fs.sys('close', self.p)

    def write(self, chunk):
        if self.buffered:
            self.pending.append(chunk)
            return 1
        self.fs.sys('write', self.p)
        self.inode.chunks.append(chunk)
        self.inode.mtime = self.fs.clock
        return 1

    def read_chunks(self):
        self.fs.sys('read', self.p)
        return list(self.inode.chunks)

    def read(self, *a):
        cs = self.read_chunks()
        return cs

    def flush(self):
        if 'w' in self.mode:
            self._sync()


def rebind_module(mod, overrides):
    """a copy of `mod` whose functions run their own code objects over a namespace with `overrides` applied"""
    ns = dict(mod.__dict__)
    ns.update(overrides)
    for n, v in list(ns.items()):
        if isinstance(v, types.FunctionType) and v.__globals__ is mod.__dict__:
            f = types.FunctionType(v.__code__, ns, v.__name__, v.__defaults__, v.__closure__)
            f.__kwdefaults__ = v.__kwdefaults__
            f.__qualname__ = v.__qualname__
            f.__dict__.update(v.__dict__)
            ns[n] = f
    m = types.ModuleType('model_' + mod.__name__)
    m.__dict__.update(ns)
    return m, ns


class Box:
    """holds the current FS so that the re-bound code can be built once per worker and reset per path"""
    fs = None


def build_model():
    """returns a namespace with model versions of os, os.path, shutil, pox.mkdir/rmtree/walk, open"""
    B = Box

    def _stat(p, *, dir_fd=None, follow_symlinks=True):
        return B.fs.stat(p)

    def _scandir(p='.'):
        p = os.fspath(p)
        return ScanIt([Entry(p, k, v) for k, v in B.fs.scandir(p)])

    def _listdir(p='.'):
        return [k for k, v in B.fs.scandir(p)]

    sysos = dict(
        mkdir=lambda p, mode=0o777, *, dir_fd=None: B.fs.mkdir(p, mode),
        rmdir=lambda p, *, dir_fd=None: B.fs.rmdir(p),
        unlink=lambda p, *, dir_fd=None: B.fs.unlink(p),
        remove=lambda p, *, dir_fd=None: B.fs.unlink(p),
        rename=lambda a, b, **k: B.fs.rename(a, b),
        replace=lambda a, b, **k: B.fs.rename(a, b),
        scandir=_scandir, listdir=_listdir, stat=_stat, lstat=_stat,
        getcwd=lambda: B.fs.cwd,
        chmod=lambda *a, **k: None, utime=lambda *a, **k: None,
    )
    fake_os_for_path = types.SimpleNamespace(stat=_stat, lstat=_stat, getcwd=lambda: B.fs.cwd, fspath=os.fspath,
                                             getcwdb=None, readlink=None, PathLike=os.PathLike, error=OSError,
                                             fsencode=os.fsencode, fsdecode=os.fsdecode)
    gp, gp_ns = rebind_module(genericpath, {'os': fake_os_for_path})
    share = {n: gp_ns[n] for n in ('exists', 'isdir', 'isfile', 'getsize', 'getmtime', 'getatime', 'getctime',
                                   'commonprefix', 'samestat', 'samefile', 'sameopenfile', '_check_arg_types', 'islink')
             if n in gp_ns}
    pp, pp_ns = rebind_module(posixpath, dict(share, os=fake_os_for_path, genericpath=gp))
    pp_ns['islink'] = lambda p: False
    pp.islink = pp_ns['islink']
    pp_ns['realpath'] = pp_ns['abspath']
    pp.realpath = pp_ns['abspath']
    mos, mos_ns = rebind_module(os, dict(sysos, path=pp))
    msh, msh_ns = rebind_module(shutil, {'os': mos, '_use_fd_functions': False})

    def copytree(src, dst, **kw):               # hand-written mirror: recursive duplicate through model syscalls
        mos.makedirs(dst)
        for name, node in B.fs.scandir(src):
            s, d = posixpath.join(src, name), posixpath.join(dst, name)
            if isinstance(node, Dir):
                copytree(s, d)
            else:
                copy2(s, d)
        return dst

    def copy2(src, dst, **kw):
        f = B.fs.open(src, 'rb')
        chunks = f.read_chunks()
        g = B.fs.open(dst, 'wb')
        for c in chunks:
            g.write(c)
        g.close()
        return dst
    msh.copytree = msh_ns['copytree'] = copytree
    msh.copy2 = msh_ns['copy2'] = copy2
    msh.copy = msh_ns['copy'] = copy2
    import pox.shutils as ps
    import pox._disk as pd
    mps, mps_ns = rebind_module(ps, {'os': mos})
    mpd, mpd_ns = rebind_module(pd, {'os': mos, 'shutil': msh})

    def fopen(p, mode='r', *a, **k):
        return B.fs.open(p, mode)
    return types.SimpleNamespace(os=mos, path=pp, shutil=msh, mkdir=mps.mkdir, rmtree=mpd.rmtree, walk=mps.walk,
                                 open=fopen, box=B)


class Serializer:
    """lossless chunk serializer standing for dill / json / klepto._pickle on files:
    dump = a header chunk and a body chunk (two write syscalls, so a prefix can be on disk);
    load raises unless the file holds exactly one complete record"""
    DEFAULT_PROTOCOL = 4
    HIGHEST_PROTOCOL = 5

    def __init__(self, name):
        self.name = name
        self.__name__ = name

    def dump(self, obj, f, *a, **kw):
        if isinstance(f, str):                  # klepto._pickle.dump(value, filename, ...)
            f = Box.fs.open(f, 'wb')
            try:
                return self.dump(obj, f)
            finally:
                f.close()
        if getattr(obj, '__unencodable__', False) or _contains_unencodable(obj):
            raise TypeError('cannot serialize %r' % type(obj).__name__)
        snap = _snapshot(obj)
        f.write(('HDR', self.name))
        f.write(('BODY', self.name, snap))

    def load(self, f, *a, **kw):
        if isinstance(f, str):
            f = Box.fs.open(f, 'rb')
        cs = f.read_chunks()
        if len(cs) != 2 or cs[0] != ('HDR', self.name) or cs[1][:2] != ('BODY', self.name):
            raise EOFError('truncated or foreign data')
        return _snapshot(cs[1][2])

    def dumps(self, obj, *a, **kw):
        import dill
        return dill.dumps(obj, *a, **kw)

    def loads(self, b, *a, **kw):
        import dill
        return dill.loads(b, *a, **kw)


class Unencodable:
    """a value the serializer cannot encode"""
    __unencodable__ = True


def _contains_unencodable(o, d=0):
    if isinstance(o, Unencodable):
        return True
    if d > 4:
        return False
    if isinstance(o, dict):
        return any(_contains_unencodable(k, d + 1) or _contains_unencodable(v, d + 1) for k, v in o.items())
    if isinstance(o, (list, tuple, set, frozenset)):
        return any(_contains_unencodable(x, d + 1) for x in o)
    return False


def _snapshot(o):
    """value semantics of a serializer: containers are copied, leaves (atoms, immutables) shared"""
    if type(o) is dict:
        return {k: _snapshot(v) for k, v in o.items()}
    if type(o) is list:
        return [_snapshot(v) for v in o]
    if type(o) is tuple:
        return tuple(_snapshot(v) for v in o)
    if type(o) is set:
        return {_snapshot(v) for v in o}
    return o


class Installer:
    """installs the model into klepto._archives' module globals; per worker"""

    def __init__(self):
        self.model = build_model()
        self.counter = [0]

    def install(self):
        import klepto._archives as A
        m = self.model
        names = ('os', 'shutil', 'open', 'mkdir', 'rmtree', 'walk', 'dill', 'json', '_pickle', 'random')
        saved = {k: A.__dict__.get(k, _MISSING) for k in names}
        A.os, A.shutil, A.open = m.os, m.shutil, m.open
        A.mkdir, A.rmtree, A.walk = m.mkdir, m.rmtree, m.walk
        A.dill, A.json, A._pickle = Serializer('dill'), Serializer('json'), Serializer('_pickle')
        cnt = self.counter

        def random():
            cnt[0] += 1
            return cnt[0] / 4096.0
        A.random = random

        def undo():
            for k, v in saved.items():
                if v is _MISSING:
                    A.__dict__.pop(k, None)
                else:
                    A.__dict__[k] = v
        return undo

    def fresh(self):
        """new empty file system (call at the start of every path)"""
        self.counter[0] = 0
        Box.fs = FS()
        return Box.fs


_MISSING = object()
STUBS = [
    'file system: in-memory POSIX model at system-call level (mkdir/rmdir/unlink/rename/open/write/read/close/scandir/stat with a logical mtime clock, POSIX error rules; file objects unbuffered or - C13/C14, symbolic choice - buffered until flush/close); real os.makedirs/renames/removedirs/walk, posixpath, genericpath, shutil.rmtree (path-based form), fnmatch and pox.mkdir/rmtree/walk run re-bound over it',
    'shutil.copytree / copy2: hand-written mirrors over the model syscalls',
    'dill / json / klepto._pickle on files: lossless two-chunk serializer (value snapshot; load fails unless exactly one complete record is present; Unencodable values raise TypeError at dump)',
    'random() for temporary names: deterministic distinct values (temp-name collisions assumed away)',
]
