"""structural symbolic str / repr / hashlib / serializer.dumps for klepto.crypto (and python's hash).

`repr`/`str` of a structure containing atoms becomes a `SymStr`: a str subclass holding a sequence of
literal pieces and atom pieces with CPython's layout (dict insertion order preserved).  Digests and
pickles are injective tagged wrappers of that piece sequence, i.e. the hypotheses "no digest collisions"
and "the serializer is injective and order-preserving" - the information-preserving assumption of the
properties themselves.  Equality is piecewise: literal/literal concrete, atom/atom decided by z3,
atom/literal false (atoms are self-delimiting tokens different from every literal text).
"""
import builtins
import z3
from ksym.core import Ctx
from ksym.values import Sym, SymBool, SymInt


class Pieces:
    def _norm(self, ps):
        out = []
        for p in ps:
            if isinstance(p, str) and not isinstance(p, Pieces):
                if p == '':
                    continue
                if out and isinstance(out[-1], str):
                    out[-1] += p
                else:
                    out.append(p)
            elif isinstance(p, Pieces):
                for q in p.pieces:
                    if isinstance(q, str) and out and isinstance(out[-1], str):
                        out[-1] += q
                    else:
                        out.append(q)
            else:
                out.append(p)
        return tuple(out)

    def _peq(self, o):
        if not isinstance(o, Pieces):
            if isinstance(o, (str, bytes)):
                return False if (len(self.pieces) != 1 or not isinstance(self.pieces[0], str)) else \
                    self.pieces[0] == (o if isinstance(o, str) else o.decode('latin1'))
            return False
        if isinstance(o, bytes) != isinstance(self, bytes):
            return False
        a, b = self.pieces, o.pieces
        if len(a) != len(b):
            return False
        conds = []
        for x, y in zip(a, b):
            if isinstance(x, str) or isinstance(y, str):
                if not (isinstance(x, str) and isinstance(y, str) and x == y):
                    return False
            else:
                if x[0] != y[0]:
                    return False
                if x[0] == 'atom':
                    if x[1].sort() != y[1].sort():
                        return False
                    if not x[1].eq(y[1]):
                        conds.append(x[1] == y[1])
                else:  # ('wrap', tag, Pieces)
                    if x[1] != y[1]:
                        return False
                    r = x[2]._peq(y[2])
                    if r is False:
                        return False
                    if r is not True:
                        conds.append(r)
        if not conds:
            return True
        return z3.And(*conds) if len(conds) > 1 else conds[0]

    def __hash__(self):
        return 0

    def __eq__(self, o):
        r = self._peq(o)
        return r if isinstance(r, bool) else SymBool(r)

    def __ne__(self, o):
        r = self._peq(o)
        return (not r) if isinstance(r, bool) else SymBool(z3.Not(r))

    def has_atoms(self):
        return any(not isinstance(p, str) for p in self.pieces)


class SymStr(Pieces, str):
    def __new__(cls, pieces):
        return str.__new__(cls, '\x00SYMSTR\x00')

    def __init__(self, pieces, *a, **k):
        if pieces is self:            # str(symstr): type.__call__ re-runs __init__ on the object __str__ returned
            return
        self.pieces = pieces.pieces if isinstance(pieces, Pieces) else self._norm(pieces)

    def __str__(self):
        return self

    def __repr__(self):
        return SymStr(["'"] + list(self.pieces) + ["'"])

    def encode(self, *a):
        return SymBytes(self.pieces)

    def __add__(self, o):
        return SymStr(list(self.pieces) + [o])

    def __radd__(self, o):
        return SymStr([o] + list(self.pieces))

    # str methods dir_archive._fname and friends use; atoms are self-delimiting tokens different from every literal text
    def replace(self, old, new, *count):
        if isinstance(old, Pieces) or isinstance(new, Pieces) or count:
            raise TypeError('replace with symbolic arguments is not modelled')
        return SymStr([p.replace(old, new) if isinstance(p, str) else p for p in self.pieces])

    def startswith(self, prefix, *a):
        if a or isinstance(prefix, Pieces):
            raise TypeError('startswith with symbolic arguments is not modelled')
        if isinstance(prefix, tuple):
            return any(self.startswith(p) for p in prefix)
        if not isinstance(prefix, str):
            raise TypeError('startswith first arg must be str or a tuple of str, not %s' % type(prefix).__name__)
        if prefix == '':
            return True
        first = self.pieces[0] if self.pieces else ''
        return isinstance(first, str) and (first.startswith(prefix) if len(first) >= len(prefix) else False)

    def endswith(self, suffix, *a):
        if a or isinstance(suffix, Pieces):
            raise TypeError('endswith with symbolic arguments is not modelled')
        if isinstance(suffix, tuple):
            return any(self.endswith(p) for p in suffix)
        if not isinstance(suffix, str):
            raise TypeError('endswith first arg must be str or a tuple of str, not %s' % type(suffix).__name__)
        if suffix == '':
            return True
        last = self.pieces[-1] if self.pieces else ''
        return isinstance(last, str) and (last.endswith(suffix) if len(last) >= len(suffix) else False)

    def __contains__(self, sub):
        if isinstance(sub, Pieces):
            raise TypeError('containment of symbolic strings is not modelled')
        return any(isinstance(p, str) and sub in p for p in self.pieces)

    def count(self, sub, *a):
        if a or isinstance(sub, Pieces):
            raise TypeError('count with symbolic arguments is not modelled')
        return sum(p.count(sub) for p in self.pieces if isinstance(p, str))

    def __lt__(self, o):
        raise TypeError('ordering of symbolic strings is not modelled')
    __gt__ = __le__ = __ge__ = __lt__
    __hash__ = Pieces.__hash__
    __eq__ = Pieces.__eq__
    __ne__ = Pieces.__ne__

    def __reduce__(self):
        from ksym.values import REGISTRY
        return (_restore, (REGISTRY.put(self),))


class SymBytes(Pieces, bytes):
    def __new__(cls, pieces):
        return bytes.__new__(cls, b'\x00SYMBYTES\x00')

    def __init__(self, pieces, *a, **k):
        if pieces is self:
            return
        self.pieces = pieces.pieces if isinstance(pieces, Pieces) else self._norm(pieces)

    def __bytes__(self):
        return self

    def __repr__(self):
        return SymStr(["b'"] + list(self.pieces) + ["'"])
    __hash__ = Pieces.__hash__
    __eq__ = Pieces.__eq__
    __ne__ = Pieces.__ne__

    def __reduce__(self):
        from ksym.values import REGISTRY
        return (_restore, (REGISTRY.put(self),))


def _restore(i):
    from ksym.values import REGISTRY
    o = REGISTRY.get(i)
    return type(o)(o.pieces)


SESSION = [0]      # C17: which interpreter session is being simulated (python's hash() of the same object differs between sessions)


class HWrap:
    """python's hash(key) modulo collisions: an injective image of the key (and of the session: hash randomisation)"""
    __slots__ = ('key', 'session')

    def __init__(self, key, session=None):
        self.key = key
        self.session = SESSION[0] if session is None else session

    def __hash__(self):
        return 0

    def __eq__(self, o):
        if not isinstance(o, HWrap):
            return False
        if self.session != o.session:
            return False
        return self.key == o.key

    def __ne__(self, o):
        r = self.__eq__(o)
        return SymBool(z3.Not(r.e)) if isinstance(r, SymBool) else not r

    def __repr__(self):
        return 'H(%r)' % (self.key,)

    def __reduce__(self):
        return (HWrap, (self.key, self.session))

    def __str__(self):
        return SymStr(['<pyhash s%d of ' % self.session] + pieces_repr(self.key) + ['>'])


def has_sym(o, depth=0):
    if isinstance(o, (Sym, Pieces, HWrap)):
        return True
    if type(o) is SymInt:
        return True
    if depth > 6:
        return False
    if isinstance(o, (tuple, list, set, frozenset)):
        return any(has_sym(x, depth + 1) for x in o)
    if isinstance(o, dict):
        return any(has_sym(k, depth + 1) or has_sym(v, depth + 1) for k, v in o.items())
    return False


def pieces_repr(o):
    """CPython's repr layout over pieces"""
    if isinstance(o, Sym):
        return [('atom', o.e)]
    if isinstance(o, SymStr):
        return ["'"] + list(o.pieces) + ["'"]
    if isinstance(o, SymBytes):
        return ["b'"] + list(o.pieces) + ["'"]
    if isinstance(o, HWrap):
        return [('wrap', 'pyhash%s' % (o.session or ''), SymStr(pieces_repr(o.key)))]
    if isinstance(o, tuple) and hasattr(o, '_fields'):
        out = [type(o).__name__ + '(']
        for i, (n, x) in enumerate(zip(o._fields, o)):
            out += ([', '] if i else []) + [n + '='] + pieces_repr(x)
        return out + [')']
    if type(o) is tuple:
        if len(o) == 1:
            return ['('] + pieces_repr(o[0]) + [',)']
        out = ['(']
        for i, x in enumerate(o):
            out += ([', '] if i else []) + pieces_repr(x)
        return out + [')']
    if type(o) is list:
        out = ['[']
        for i, x in enumerate(o):
            out += ([', '] if i else []) + pieces_repr(x)
        return out + [']']
    if type(o) in (set, frozenset) and len(o):
        out = ['{'] if type(o) is set else ['frozenset({']
        for i, x in enumerate(o):
            out += ([', '] if i else []) + pieces_repr(x)
        return out + (['}'] if type(o) is set else ['})'])
    if type(o) is dict:
        out = ['{']
        for i, (k, v) in enumerate(o.items()):
            out += ([', '] if i else []) + pieces_repr(k) + [': '] + pieces_repr(v)
        return out + ['}']
    r = getattr(type(o), '__sym_repr__', None)
    if r is not None:
        return r(o)
    return [builtins.repr(o)]


def sym_repr(o):
    return SymStr(pieces_repr(o)) if has_sym(o) else builtins.repr(o)


class _StrMeta(type):
    def __instancecheck__(cls, o):
        return isinstance(o, builtins.str)


class sym_str(metaclass=_StrMeta):
    def __new__(cls, o=''):
        if isinstance(o, SymStr):
            return o
        if isinstance(o, HWrap):
            return o.__str__()
        return SymStr(pieces_repr(o)) if has_sym(o) else builtins.str(o)


class _H:
    def __init__(self, alg, data):
        self.alg, self.data = alg, data

    def hexdigest(self):
        if isinstance(self.data, Pieces):
            return SymStr([('wrap', 'H:' + self.alg, self.data)])
        import hashlib
        return hashlib.new(self.alg, self.data).hexdigest()


class sym_hashlib:
    algorithms_available = __import__('hashlib').algorithms_available

    @staticmethod
    def new(alg, data=b''):
        return _H(alg, data)


class _Ser:
    def __init__(self, name):
        self.name = name
        self.real = builtins.__import__(name)
        self.__name__ = name

    def dumps(self, o, **kw):
        if _has_unpicklable(o):
            raise TypeError('cannot pickle %r object' % type(o).__name__)
        if has_sym(o):
            # the options given to the serializer are part of what it produces (protocol=2 bytes differ from the default's)
            opts = ','.join('%s=%r' % kv for kv in sorted(kw.items()) if kv[0] != 'byref')
            return SymBytes([('wrap', 'P:' + self.name + ('[%s]' % opts if opts else ''), SymStr(pieces_repr(o)))])
        return self.real.dumps(o, **kw)


class Unpicklable:
    """an argument no serializer accepts (dumps raises TypeError)"""

    def __reduce_ex__(self, p):
        raise TypeError('cannot pickle Unpicklable object')


def _has_unpicklable(o, d=0):
    if isinstance(o, Unpicklable):
        return True
    if d > 4:
        return False
    if isinstance(o, dict):
        return any(_has_unpicklable(k, d + 1) or _has_unpicklable(v, d + 1) for k, v in o.items())
    if isinstance(o, (list, tuple, set, frozenset)):
        return any(_has_unpicklable(x, d + 1) for x in o)
    return False


def sym_import(name, *a, **k):
    if name in ('dill', 'pickle', 'json'):
        return _Ser(name)
    return builtins.__import__(name, *a, **k)


def sym_pyhash(o):
    if has_sym(o) or SESSION[0]:
        return HWrap(o)
    return builtins.hash(o)


def install():
    """patch klepto.crypto's module globals; returns an undo function"""
    import klepto.crypto as C
    saved = {k: C.__dict__.get(k, _MISSING) for k in ('str', 'repr', 'hashlib', '__import__', '__hash')}
    C.str = sym_str
    C.repr = sym_repr
    C.hashlib = sym_hashlib
    C.__dict__['__import__'] = sym_import
    C.__dict__['__hash'] = sym_pyhash

    def undo():
        for k, v in saved.items():
            if v is _MISSING:
                C.__dict__.pop(k, None)
            else:
                C.__dict__[k] = v
    return undo


_MISSING = object()
STUBS = ['klepto.crypto.str/repr -> structural SymStr (CPython layout, dict insertion order kept)',
         'klepto.crypto.hashlib.new(alg,b).hexdigest() -> injective tagged wrapper (no digest collisions)',
         'klepto.crypto.__import__(serializer).dumps -> injective tagged wrapper of the repr layout',
         "klepto.crypto.__hash (python hash) -> injective wrapper ('hash modulo collisions')"]
