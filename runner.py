"""generic check runner: configurations -> parallel symbolic explorations -> replay -> verdict + evidence"""
import hashlib
import importlib
import json
import multiprocessing as mp
import os
import random
import sys
import time
import traceback

HERE = os.path.dirname(os.path.abspath(__file__))
REPO = os.environ.get('KLEPTO_VERIF_REPO', '/repo')
EVID = os.environ.get('VERIF_EVIDENCE_DIR') or os.path.join(HERE, 'evidence')   # override only for self-tests against seeded copies
REPLAYS = os.path.join(EVID, 'replay')

EXIT_OK, EXIT_VIOLATION, EXIT_INCONCLUSIVE = 0, 1, 2


def _setup_path():
    if HERE not in sys.path:
        sys.path.insert(0, HERE)
    if REPO not in sys.path:
        sys.path.insert(0, REPO)
    os.environ['KLEPTO_VERIF'] = '1'


class Coverage:
    """which functions of /repo/klepto were actually executed (the 'functions encoded')"""
    TOOL = 4

    def __init__(self):
        self.seen = set()
        self.prefix = os.path.join(os.path.realpath(REPO), 'klepto') + os.sep
        self.on = False

    def start(self):
        mon = sys.monitoring
        try:
            mon.use_tool_id(self.TOOL, 'ksym-cover')
        except ValueError:
            return

        def cb(code, off):
            fn = code.co_filename
            if fn.startswith(self.prefix) and os.sep + 'tests' + os.sep not in fn:
                self.seen.add('%s:%s' % (fn[len(self.prefix):], code.co_qualname))
            return mon.DISABLE
        mon.register_callback(self.TOOL, mon.events.PY_START, cb)
        mon.set_events(self.TOOL, mon.events.PY_START)
        self.on = True

    def stop(self):
        if self.on:
            sys.monitoring.set_events(self.TOOL, 0)
            sys.monitoring.free_tool_id(self.TOOL)
            self.on = False


def sig_key(sig):
    return json.dumps(sig, sort_keys=True, default=str)


def exec_cfg(job):
    """worker: explore one configuration symbolically, then replay each distinct violation concretely"""
    modname, cfg, seed = job
    _setup_path()
    t0 = time.time()
    out = {'cfg': cfg, 'paths': 0, 'decisions': 0, 'queries': 0, 'solver_s': 0.0, 'obligations': {},
           'violations': [], 'inconclusive': [], 'closed': False, 'functions': [], 'samples': [],
           'replays': 0, 'wall': 0.0, 'pruned': 0, 'notes': {}, 'second_solver': {'checked': 0, 'agree': 0, 'disagree': [], 'errors': 0}}
    cov = Coverage()
    try:
        mod = importlib.import_module(modname)
        from ksym.core import Ctx, ReplayCtx
        from ksym.values import REGISTRY
        h = mod.build(cfg)
        ctx = Ctx(max_paths=cfg.get('max_paths', 400000), timeout_s=cfg.get('timeout_s', 1500),
                  max_decisions=cfg.get('max_decisions', 4000))
        ctx.sample_every = cfg.get('sample_every', 97)
        ctx.prefix = list(cfg.get('_prefix', []))
        ctx.smtlog = []
        ctx.smtlog_every = cfg.get('smt_every', 397)
        undo = h.install()
        cov.start()
        try:
            def fn(c):
                REGISTRY.clear()
                return h.fn(c)
            ctx.explore(fn)
        finally:
            cov.stop()
            undo()
        out.update(paths=ctx.paths, decisions=ctx.decisions, queries=ctx.queries, solver_s=round(ctx.solver_s, 3),
                   obligations=ctx.obligations, inconclusive=list(dict.fromkeys(ctx.inconclusive)),
                   closed=ctx.closed, functions=sorted(cov.seen), pruned=ctx.pruned_paths, notes=ctx.notes)
        out['samples'] = [h.render(a) for a in ctx.samples[:3]]
        out['second_solver'] = cross_check(ctx.smtlog)
        # distinct violations by signature; replay each on the real code
        seen = {}
        for v in ctx.violations:
            sig = h.signature(v.label, v.info)
            k = sig_key(sig)
            if k in seen:
                seen[k]['count'] += 1
                continue
            rec = {'label': v.label, 'info': v.info, 'signature': sig, 'assignment': v.assignment, 'count': 1,
                   'rendered': h.render(v.assignment)}
            seen[k] = rec
            try:
                rec['confirmed'], rec['replay_detail'] = replay_one(mod, cfg, v.assignment, v.label)
            except Exception as e:  # replay machinery failed
                rec['confirmed'] = False
                rec['replay_detail'] = 'replay error: %s' % traceback.format_exc(limit=6)
            out['replays'] += 1
        out['violations'] = list(seen.values())
    except Exception:
        out['inconclusive'].append('harness error: ' + traceback.format_exc(limit=12))
    out['wall'] = round(time.time() - t0, 3)
    return out


def cross_check(smtlog):
    """decide a deterministic sample of the engine's queries again with cvc5 (a different solver)"""
    res = {'checked': 0, 'agree': 0, 'disagree': [], 'errors': 0}
    try:
        import cvc5
    except ImportError:
        res['errors'] = -1
        return res
    for smt, z3res in smtlog:
        try:
            slv = cvc5.Solver()
            slv.setOption('tlimit-per', '20000')
            ip = cvc5.InputParser(slv)
            ip.setStringInput(cvc5.InputLanguage.SMT_LIB_2_6, '(set-logic ALL)\n' + smt, 'q')
            sm = ip.getSymbolManager()
            ans = None
            while True:
                cmd = ip.nextCommand()
                if cmd.isNull():
                    break
                r = str(cmd.invoke(slv, sm)).strip()
                if r in ('sat', 'unsat', 'unknown'):
                    ans = r
                elif r.startswith('(error'):
                    ans = 'error'
            res['checked'] += 1
            if ans == z3res:
                res['agree'] += 1
            elif ans in ('sat', 'unsat') and z3res in ('sat', 'unsat'):
                res['disagree'].append((z3res, ans))
            else:
                res['errors'] += 1
        except Exception:
            res['errors'] += 1
    return res


def replay_one(mod, cfg, assignment, label):
    """run the same harness on plain Python values taken from the model, real code, no symbolic stubs"""
    from ksym.core import ReplayCtx
    h = mod.build(cfg)
    if hasattr(h, 'replay'):
        return h.replay(assignment, label)
    undo = h.replay_install(assignment) if hasattr(h, 'replay_install') else (lambda: None)
    try:
        r = ReplayCtx(assignment).run(h.fn)
    finally:
        undo()
    prop = label.split(':')[0]
    failed = [f for f in r.failed if f[0].split(':')[0] == prop]
    same = [f for f in failed if f[0] == label]
    detail = {'failed': [[f[0], f[1]] for f in r.failed[:5]], 'diverged': r.diverged[:5]}
    return (bool(same) or bool(failed)), detail


def load_known():
    p = os.path.join(HERE, 'known_findings.json')
    if not os.path.exists(p):
        return []
    with open(p) as f:
        return json.load(f).get('findings', [])


def run_check(prop, tier, modname, meta, argv_seed=None):
    """meta: dict(level, design_ref, bounds, assumptions, stubs, rule)"""
    _setup_path()
    t0 = time.time()
    seed = int(os.environ.get('VERIF_SEED', '0') or 0)
    mod = importlib.import_module(modname)
    cfgs = mod.plan(prop, tier)
    rnd = random.Random(seed)
    order = list(range(len(cfgs)))
    rnd.shuffle(order)          # the seed only permutes scheduling; exploration is exhaustive within bounds
    # longest first (cfg['weight']) keeps the pool busy
    order.sort(key=lambda i: -cfgs[i].get('weight', 1))
    jobs = []
    for i in order:
        d = cfgs[i].get('split', 0)
        if d:
            import itertools
            for bits in itertools.product((True, False), repeat=d):
                c = dict(cfgs[i])
                c['_prefix'] = list(bits)
                jobs.append((modname, c, seed))
        else:
            jobs.append((modname, cfgs[i], seed))
    nproc = int(os.environ.get('VERIF_JOBS', '0') or 0) or min(16, os.cpu_count() or 4)
    results = []
    if nproc == 1 or len(jobs) == 1:
        for j in jobs:
            results.append(exec_cfg(j))
    else:
        with mp.get_context('fork').Pool(min(nproc, len(jobs)), maxtasksperchild=1) as pool:
            for r in pool.imap_unordered(exec_cfg, jobs, chunksize=1):
                results.append(r)
    return finish(prop, tier, seed, meta, merge_split(results), time.time() - t0)


def merge_split(results):
    out, by = [], {}
    for r in results:
        if '_prefix' not in r['cfg']:
            out.append(r)
            continue
        name = r['cfg']['name']
        if name not in by:
            by[name] = r
            r['cfg'] = {k: v for k, v in r['cfg'].items() if k != '_prefix'}
            out.append(r)
            continue
        m = by[name]
        for k in ('paths', 'decisions', 'queries', 'solver_s', 'replays', 'pruned'):
            m[k] += r[k]
        m['wall'] = max(m['wall'], r['wall'])
        m['closed'] = m['closed'] and r['closed']
        m['inconclusive'] += r['inconclusive']
        m['functions'] = sorted(set(m['functions']) | set(r['functions']))
        m['samples'] += r['samples']
        for k2 in ('checked', 'agree', 'errors'):
            m['second_solver'][k2] = m['second_solver'].get(k2, 0) + r['second_solver'].get(k2, 0)
        m['second_solver']['disagree'] = m['second_solver'].get('disagree', []) + r['second_solver'].get('disagree', [])
        for lab, (a, b) in r['obligations'].items():
            o = m['obligations'].setdefault(lab, [0, 0])
            o[0] += a
            o[1] += b
        have = {sig_key(v['signature']) for v in m['violations']}
        for v in r['violations']:
            if sig_key(v['signature']) not in have:
                m['violations'].append(v)
    return out


def finish(prop, tier, seed, meta, results, wall):
    known = [k for k in load_known() if k.get('property') == prop]
    known_open = {sig_key(k['signature']): k for k in known if k.get('status') == 'known'}
    os.makedirs(REPLAYS, exist_ok=True)
    lines = []
    new_viol, known_hit, unconfirmed = [], {}, []
    canary_needed = [r for r in results if r['cfg'].get('canary')]
    canary_ok = True
    inconclusive = []
    tot = {'paths': 0, 'decisions': 0, 'queries': 0, 'solver_s': 0.0, 'replays': 0, 'pruned': 0}
    oblig = {}
    functions = set()
    samples = []
    per_cfg = []
    ss = {'checked': 0, 'agree': 0, 'disagree': 0, 'errors': 0}
    for r in results:
        cfg = r['cfg']
        s2 = r.get('second_solver') or {}
        ss['checked'] += s2.get('checked', 0)
        ss['agree'] += s2.get('agree', 0)
        ss['disagree'] += len(s2.get('disagree', []))
        ss['errors'] += max(0, s2.get('errors', 0))
        if s2.get('disagree'):
            inconclusive.append('%s: z3 and cvc5 disagree on %d sampled queries' % (cfg['name'], len(s2['disagree'])))
        for k in tot:
            tot[k] += r.get(k, 0)
        functions.update(r['functions'])
        for s in r['samples'][:1]:
            if len(samples) < 8:
                samples.append({'config': cfg['name'], 'case': s})
        per_cfg.append({'config': cfg['name'], 'paths': r['paths'], 'decisions': r['decisions'],
                        'queries': r['queries'], 'solver_s': r['solver_s'], 'wall_s': r['wall'],
                        'closed': r['closed'], 'violations': len(r['violations'])})
        if cfg.get('canary'):
            ok = any(v.get('confirmed') for v in r['violations'])
            if not ok:
                canary_ok = False
                inconclusive.append('canary %s did not produce a replay-confirmed counterexample' % cfg['name'])
            continue
        for lab, (reached, disch) in r['obligations'].items():
            o = oblig.setdefault(lab, [0, 0])
            o[0] += reached
            o[1] += disch
        if not r['closed']:
            inconclusive.append('%s: exploration did not close' % cfg['name'])
        for why in r['inconclusive']:
            inconclusive.append('%s: %s' % (cfg['name'], why))
        for v in r['violations']:
            if v['label'].split(':')[0] != prop:
                continue
            k = sig_key(v['signature'])
            if not v.get('confirmed'):
                unconfirmed.append((cfg, v))
                continue
            if k in known_open:
                known_hit.setdefault(k, []).append((cfg, v))
                continue
            new_viol.append((cfg, v))
    for k, hits in known_hit.items():
        lines.append('KNOWN-FINDING: property=%s %s' % (prop, known_open[k]['what']))
    rc = EXIT_OK
    written = set()
    for cfg, v in new_viol:
        k = sig_key(v['signature'])
        if k in written:
            continue
        written.add(k)
        path = os.path.join(REPLAYS, '%s_%s.json' % (prop, hashlib.md5(k.encode()).hexdigest()[:10]))
        with open(path, 'w') as f:
            json.dump({'property': prop, 'module': meta['module'], 'cfg': cfg, 'label': v['label'],
                       'signature': v['signature'], 'assignment': v['assignment'], 'rendered': v['rendered'],
                       'info': v['info'], 'replay_detail': v.get('replay_detail')}, f, indent=1, default=str)
        lines.append('VIOLATION property=%s replay=%s' % (prop, path))
        lines.append('  config=%s label=%s signature=%s' % (cfg['name'], v['label'], k))
        lines.append('  case=%s' % json.dumps(v['rendered'], default=str)[:600])
        rc = EXIT_VIOLATION
    for cfg, v in unconfirmed[:10]:
        lines.append('UNCONFIRMED counterexample (not reproduced on the real code; harness/stub suspect): '
                     'config=%s label=%s sig=%s detail=%s' % (cfg['name'], v['label'], sig_key(v['signature']),
                                                             str(v.get('replay_detail'))[:400]))
    if unconfirmed:
        inconclusive.append('%d counterexample(s) did not reproduce in concrete replay' % len(unconfirmed))
    nontrivial = sum(1 for r in results if not r['cfg'].get('canary') and r['paths'] > 1)
    real = [r for r in results if not r['cfg'].get('canary')]
    if not oblig or sum(o[0] for o in oblig.values()) == 0:
        inconclusive.append('vacuous: no obligation was reached')
    for lab in meta.get('expect_labels', []):
        if lab not in oblig:
            inconclusive.append('vacuous: obligation %s never reached' % lab)
    if rc == EXIT_OK and inconclusive:
        rc = EXIT_INCONCLUSIVE
    n_obl = sum(o[0] for o in oblig.values())
    n_dis = sum(o[1] for o in oblig.values())
    ev = {
        'property_id': prop, 'tier': tier, 'seed': seed, 'level': meta.get('level', 'model_checking'),
        'coverage': {
            'states': max(1, tot['paths']), 'transitions': max(1, tot['decisions']),
            'traces_validated_against_impl': tot['replays'],
            'evaluations': max(1, tot['paths']),
            'distinct_nontrivial': max(2, sum(r['paths'] - r['pruned'] for r in real if r['paths'] > 1)),
            'rule': meta.get('rule', 'one case = one closed path of the symbolic exploration of the real klepto code '
                             '(an equivalence class of inputs driving the code identically); distinct by construction '
                             '(different decision vectors); non-trivial = path of a configuration with more than one path, '
                             'not pruned by an assumption'),
            'samples': samples or [{'note': 'no sample recorded'}],
            'exhaustive': all(r['closed'] for r in real) and not inconclusive,
            'configurations': len(real), 'canaries': len(canary_needed), 'canaries_ok': canary_ok,
            'paths': tot['paths'], 'paths_pruned_by_assumption': tot['pruned'],
            'solver_decided_branches': tot['decisions'], 'queries': tot['queries'],
            'solver_s': round(tot['solver_s'], 2), 'solver': 'z3 ' + _z3v(),
            'second_solver': dict(ss, solver='cvc5 (python wheel)', rule='every 397th query of each exploration, at most 12 per configuration, re-decided from its SMT-LIB2 dump'),
            'obligations': n_obl, 'discharged': n_dis, 'obligations_by_label': oblig,
            'functions_encoded': sorted(functions), 'bounds': meta.get('bounds', {}).get(tier, meta.get('bounds')),
            'outside_bounds': meta.get('outside', ''), 'stubs': meta.get('stubs', []),
            'per_configuration': per_cfg if len(per_cfg) <= 1500 else sorted(per_cfg, key=lambda c: -c['paths'])[:1500],
            'inconclusive': inconclusive[:20],
            'known_findings_matched': [known_open[k]['what'] for k in known_hit],
            **({'kernels_crosshair': meta['kernels']} if meta.get('kernels') else {}),
            'unknown_solver_answers': sum(1 for i in inconclusive if 'unknown' in i),
        },
        'assumptions': meta.get('assumptions', []),
        'wall_s': round(wall, 2),
        'violations': len(written),
    }
    os.makedirs(EVID, exist_ok=True)
    with open(os.path.join(EVID, '%s.json' % prop), 'w') as f:
        json.dump(ev, f, indent=1, default=str)
    for ln in lines:
        print(ln)
    print('%s %s: configs=%d paths=%d decisions=%d queries=%d solver=%.1fs obligations=%d/%d replays=%d wall=%.1fs -> exit %d'
          % (prop, tier, len(real), tot['paths'], tot['decisions'], tot['queries'], tot['solver_s'], n_dis, n_obl,
             tot['replays'], wall, rc))
    if inconclusive:
        for i in inconclusive[:12]:
            print('INCONCLUSIVE:', i[:1500])
    return rc


def _z3v():
    try:
        import z3
        return z3.get_version_string()
    except Exception:
        return '?'
