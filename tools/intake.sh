#!/bin/bash
# tools/intake.sh [SRC [OFFSET]]: copy finished seeds from SRC/Cxx/SEEDn (default /tmp/seed) into /verif/seeded/Cxx-(n+OFFSET) and evaluate every seed without eval.json
cd /verif
declare -A COMP=( [C02]="C02 C07" [C05]="C05 C16" [C09]="C09 C01" [C10]="C10 C01" [C07]="C07 C02" [C15]="C15" [C06]="C06 C07" )
todo=()
SRC=${1:-/tmp/seed}; OFF=${2:-0}
for d in $SRC/C??/SEED?; do
  [ -f $d/patch.diff ] && [ -f $d/demo.py ] && [ -f $d/meta.json ] || continue
  p=$(basename $(dirname $d)); n=$(( ${d: -1} + OFF )); t=seeded/$p-$n
  if [ ! -d $t ]; then mkdir -p $t; cp $d/patch.diff $d/demo.py $d/meta.json $t/; fi
  done
for t in seeded/C??-?; do [ -s $t/eval.json ] || todo+=("$t"); done
printf '%s\n' "${todo[@]}" | xargs -P 3 -I{} bash -c 'p=$(basename {} | cut -d- -f1); case $p in C02) c="C02 C07";; C05) c="C05 C16";; C09) c="C09 C01";; C10) c="C10 C01";; C07) c="C07 C02";; C06) c="C06 C07";; C08) c="C08 C03";; C20) c="C20 C04";; C01) c="C01 C09";; C13) c="C13 C14";; *) c=$p;; esac; VERIF_JOBS=6 python3 tools/seedeval.py {} $c > {}/eval.json 2>{}/eval.err; echo done {}'
