#!/usr/bin/env python3
"""one line per seeded change: validity and which checks raised an alarm (reads seeded/*/eval.json)

  tools/seedsummary.py          plain lines
  tools/seedsummary.py --md     writes seeded/README.md (table: seed, property, mechanism, needs, verdict per check)"""
import glob
import json
import os
import sys

HERE = os.path.dirname(os.path.dirname(os.path.abspath(__file__)))


def load():
    rows = []
    for d in sorted(glob.glob(os.path.join(HERE, 'seeded', 'C*'))):
        if not os.path.isdir(d):
            continue
        name = os.path.basename(d)
        try:
            meta = json.load(open(os.path.join(d, 'meta.json')))
        except Exception:
            meta = {}
        try:
            e = json.load(open(os.path.join(d, 'eval.json')))
        except Exception:
            e = None
        rows.append((name, meta, e))
    return rows


def verdicts(e):
    return {k: ('CAUGHT' if c['exit'] == 1 else 'silent' if c['exit'] == 0 else 'INCONCLUSIVE') for k, c in e.get('checks', {}).items()}


def valid(e):
    return bool(e) and e.get('demo_clean_exit') == 0 and e.get('demo_changed_exit') not in (0, None) and e.get('tests_ok')


def main():
    rows = load()
    if '--md' not in sys.argv:
        for name, meta, e in rows:
            if e is None:
                print(name, '(no evaluation)')
                continue
            st = 'valid' if valid(e) else 'INVALID(applies=%s clean=%s changed=%s tests=%s)' % (
                e.get('patch_applies'), e.get('demo_clean_exit'), e.get('demo_changed_exit'), e.get('tests'))
            print(name, st, verdicts(e))
        return
    out = ['# Seeded changes', '',
           'Each directory: `patch.diff` (applies to /repo HEAD with `git apply` / `patch -p1`), `demo.py` (exit 0 on the clean tree, 1 with the change),',
           '`meta.json` (the author\'s description), `eval.json` (written by `tools/seedeval.py`: demo on the clean tree, demo with the change,',
           'test suite with the change, and the quick tier of the named checks against the changed copy).', '',
           '| seed | breaks | mechanism | needs | confirmed (clean demo / changed demo / suite) | checks (quick tier) |', '|---|---|---|---|---|---|']
    ncaught = nvalid = 0
    for name, meta, e in rows:
        if e is None:
            continue
        v = verdicts(e)
        ok = valid(e)
        nvalid += ok
        caught = any(x == 'CAUGHT' for x in v.values())
        ncaught += (ok and caught)
        cell = ', '.join('%s: **%s**' % (k, x) if x == 'CAUGHT' else '%s: %s' % (k, x) for k, x in v.items())
        conf = '%s / %s / %s' % (e.get('demo_clean_exit'), e.get('demo_changed_exit'), (e.get('tests') or '').split(' in ')[0])
        esc = lambda t: str(t or '').replace('|', '\\|').replace('\n', ' ')[:300]
        out.append('| %s | %s | %s | %s | %s | %s |' % (name, meta.get('property', name[:3]), esc(meta.get('summary')), esc(meta.get('needs')), conf, cell))
    out += ['', '%d of %d confirmed seeds raise an alarm in the quick tier of at least one check.' % (ncaught, nvalid), '']
    with open(os.path.join(HERE, 'seeded', 'README.md'), 'w') as f:
        f.write('\n'.join(out))
    print('seeded/README.md: %d seeds, %d caught' % (nvalid, ncaught))


if __name__ == '__main__':
    main()
