#!/usr/bin/env python3
"""one line per seeded change: validity and which checks raised an alarm (reads seeded/*/eval*.json)"""
import glob, json, os, sys
HERE = os.path.dirname(os.path.dirname(os.path.abspath(__file__)))
for d in sorted(glob.glob(os.path.join(HERE, 'seeded', '*'))):
    if not os.path.isdir(d):
        continue
    p = os.path.join(d, 'eval.json')
    try:
        e = json.load(open(p))
    except Exception:
        print(os.path.basename(d), '(no evaluation)'); continue
    ok = e.get('demo_clean_exit') == 0 and e.get('demo_changed_exit') not in (0, None) and e.get('tests_ok')
    st = 'valid' if ok else 'INVALID(applies=%s clean=%s changed=%s tests=%s)' % (e.get('patch_applies'), e.get('demo_clean_exit'), e.get('demo_changed_exit'), e.get('tests'))
    print(os.path.basename(d), st, {k: ('CAUGHT' if c['exit'] == 1 else 'silent' if c['exit'] == 0 else 'INCONCLUSIVE') for k, c in e.get('checks', {}).items()})
