#!/usr/bin/env python3
"""run the CrossHair kernels of harness/kernels_crosshair.py (C03-A): one `crosshair check` process per condition.

  tools/kernels.py [--timeout S] [--json FILE] [--replay FILE]

Verdict per condition: 'Confirmed over all paths' -> confirmed; a counterexample -> replayed on the real code
(real dir_archive on the real file system) and, if it reproduces, classified against the known-finding classes;
anything else (Not confirmed, Unable to meet precondition, time-out, unparsable output, a counterexample that
does not reproduce) -> inconclusive.  Exit 0 ok / 1 new violation / 2 inconclusive.  Writes a JSON summary."""
import ast
import concurrent.futures as cf
import json
import os
import re
import subprocess
import sys
import time

HERE = os.path.dirname(os.path.abspath(__file__))
ROOT = os.path.dirname(HERE)
TARGET = os.path.join(ROOT, 'harness', 'kernels_crosshair.py')
sys.path.insert(0, ROOT)
REPO = os.environ.get('KLEPTO_VERIF_REPO', '/repo')
sys.path.insert(0, REPO)


def line_of(name):
    with open(TARGET) as f:
        for i, l in enumerate(f, 1):
            if l.startswith('def %s(' % name):
                return i + 1
    raise KeyError(name)


def run_one(name, timeout):
    t0 = time.time()
    cmd = [os.path.join(os.path.dirname(sys.executable), 'crosshair'), 'check', '--report_all',
           '--per_condition_timeout', str(timeout), '%s:%d' % (TARGET, line_of(name))]
    try:
        p = subprocess.run(cmd, capture_output=True, text=True, timeout=timeout * 3 + 60,
                           env=dict(os.environ, PYTHONHASHSEED='0', KLEPTO_VERIF_REPO=REPO))
        out = (p.stdout + p.stderr).strip()
    except subprocess.TimeoutExpired:
        out = 'TIMEOUT'
    return name, out, round(time.time() - t0, 2)


def parse(name, out):
    if 'Confirmed over all paths' in out:
        return 'confirmed', None
    m = re.search(r'error: false when calling %s\((.*)\) \(which returns' % re.escape(name), out)
    if m:
        try:
            args = ast.literal_eval('(' + m.group(1) + ',)')
            return 'counterexample', list(args)
        except Exception:
            return 'inconclusive', 'unparsable counterexample: ' + m.group(1)[:200]
    return 'inconclusive', out[-300:]


def main(argv):
    timeout = 45
    if '--timeout' in argv:
        timeout = int(argv[argv.index('--timeout') + 1])
    from harness import kernels_crosshair as K
    if '--replay' in argv:
        rec = json.load(open(argv[argv.index('--replay') + 1]))
        bad, detail = K.KERNELS[rec['kernel']]['replay'](rec['args'])
        print(json.dumps({'reproduced': bad, 'detail': detail}))
        return 1 if bad else 0
    names = list(K.KERNELS)
    t0 = time.time()
    with cf.ThreadPoolExecutor(max_workers=min(8, len(names))) as ex:
        res = list(ex.map(lambda n: run_one(n, timeout), names))
    summary = {'engine': 'crosshair-tool 0.0.110 (z3)', 'per_condition_timeout_s': timeout, 'conditions': [], 'wall_s': 0,
               'violations': [], 'known': [], 'inconclusive': []}
    for name, out, secs in res:
        k = K.KERNELS[name]
        verdict, data = parse(name, out)
        rec = {'kernel': name, 'expect': k['expect'], 'verdict': verdict, 'seconds': secs,
               'doc': (k['fn'].__doc__ or '').strip().splitlines()[0]}
        if verdict == 'counterexample':
            rec['args'] = data
            try:
                bad, detail = k['replay'](data)
            except Exception as e:
                bad, detail = False, 'replay raised %s: %s' % (type(e).__name__, e)
            rec['reproduced'], rec['detail'] = bad, detail
            cls = k['classify'](data)
            rec['class'] = cls
            if not bad:
                summary['inconclusive'].append('%s: counterexample %r does not reproduce on the real code (%s)' % (name, data, detail))
            elif k['expect'] == 'counterexample':
                pass                                   # the reachability twin did its job
            elif k['expect'] == 'known' and cls is not None:
                summary['known'].append({'kernel': name, 'class': cls, 'args': data, 'detail': detail})
            else:
                summary['violations'].append({'kernel': name, 'args': data, 'detail': detail})
        elif verdict == 'confirmed':
            if k['expect'] == 'counterexample':
                summary['inconclusive'].append('%s: reachability twin was confirmed (vacuous harness?)' % name)
        else:
            rec['why'] = data
            summary['inconclusive'].append('%s: %s' % (name, str(data)[:200]))
        summary['conditions'].append(rec)
    summary['wall_s'] = round(time.time() - t0, 2)
    if '--json' in argv:
        with open(argv[argv.index('--json') + 1], 'w') as f:
            json.dump(summary, f, indent=1)
    nconf = sum(1 for c in summary['conditions'] if c['verdict'] == 'confirmed')
    print('kernels (CrossHair): %d conditions, %d confirmed over all paths, %d known, %d violations, %d inconclusive, %.1fs'
          % (len(names), nconf, len(summary['known']), len(summary['violations']), len(summary['inconclusive']), summary['wall_s']))
    for i in summary['inconclusive']:
        print('  inconclusive:', i)
    for v in summary['violations']:
        print('  violation: %s%r %s' % (v['kernel'], tuple(v['args']), v['detail']))
    return 1 if summary['violations'] else (2 if summary['inconclusive'] else 0)


if __name__ == '__main__':
    sys.exit(main(sys.argv[1:]))
