#!/bin/bash
# tools/evalmany.sh "<seed> <props...>" ... : evaluate several seeds (3 at a time), print one summary line each
cd /verif
printf '%s\n' "$@" | xargs -P 3 -I{} bash -c 'set -- {}; s=$1; shift; VERIF_JOBS=6 python3 tools/seedeval.py seeded/$s "$@" > /tmp/ck/ev_$s.json 2>/tmp/ck/ev_$s.err; python3 - $s <<PY
import json,sys
try:
    d=json.load(open("/tmp/ck/ev_%s.json"%sys.argv[1]))
    print(sys.argv[1], {k:(c["exit"],c["violations"],(c["first"] or [""])[0][:160]) for k,c in d["checks"].items()})
except Exception as e: print(sys.argv[1], "ERR", e)
PY'
