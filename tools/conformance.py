#!/usr/bin/env python3
"""stub conformance: the same concrete operation sequences on the model file system and on the real one.

For every scripted sequence (including the store/read-back workload of klepto/tests/test_readwrite.py) the
real archive code runs (a) over stubs/posixfs.py with the chunk serializer and (b) over the real os in a scratch
directory with the real dill/json.  Compared: every return value / exception class, the final contents, the
names in the archive's directory tree, and the sequence of *mutating* system calls (mkdir/rmdir/unlink/rename)
with temp names normalised.  Any disagreement makes the checks that rely on the model inconclusive (exit 2).
"""
import os
import re
import shutil
import sys
import tempfile

HERE = os.path.dirname(os.path.dirname(os.path.abspath(__file__)))
REPO = os.environ.get('KLEPTO_VERIF_REPO', '/repo')
sys.path[:0] = [HERE, REPO]

SEQS = {
    'readwrite': [('set', 'a', 1), ('set', 'b', [1, 2]), ('set', 'c', 'x'), ('get', 'a'), ('keys',), ('len',), ('items',)],
    'overwrite-delete': [('set', 'a', 1), ('set', 'a', 2), ('get', 'a'), ('del', 'a'), ('get', 'a'), ('del', 'a'), ('len',)],
    'pop-family': [('set', 'a', 1), ('set', 'b', 2), ('pop', 'a'), ('pop', 'a'), ('popd', 'a', 9), ('popitem',), ('popitem',), ('len',)],
    'update-clear': [('update', {'a': 1, 'b': 2}), ('setdefault', 'c', 3), ('setdefault', 'a', 7), ('clear',), ('len',), ('set', 'z', 0), ('items',)],
    'nonstring-key': [('set', ('t', 2), 5), ('set', 1, 6), ('keys',), ('get', ('t', 2)), ('in', 1), ('in', 2), ('del', ('t', 2)), ('keys',)],
    'copy': [('set', 'a', 1), ('copy', 'other'), ('items',)],
    'reopen': [('set', 'a', 1), ('reopen',), ('set', 'b', 2), ('items',)],
}
KINDS = ('file', 'dir', 'filejson', 'dirjson')


def norm(name):
    return re.sub(r'[0-9a-f]{32}', 'TMP', str(name))      # temporary names are md5 digests of random()


def run(kind, seq, real):
    from harness import arch
    log = []
    a = arch.make(kind, 'memo')
    out = []
    for step in seq:
        op = step[0]
        if 'json' in kind and any(isinstance(x, (tuple, int)) and not isinstance(x, bool) for x in step[1:2]):
            out.append('skip')
            continue
        try:
            if op == 'set':
                a[step[1]] = step[2]; r = None
            elif op == 'get':
                r = a[step[1]]
            elif op == 'del':
                del a[step[1]]; r = None
            elif op == 'keys':
                r = sorted(map(repr, a.keys()))
            elif op == 'len':
                r = len(a)
            elif op == 'items':
                r = sorted((repr(k), repr(v)) for k, v in a.items())
            elif op == 'pop':
                r = a.pop(step[1])
            elif op == 'popd':
                r = a.pop(step[1], step[2])
            elif op == 'popitem':
                r = a.popitem(); r = 'item'
            elif op == 'update':
                a.update(step[1]); r = None
            elif op == 'setdefault':
                r = a.setdefault(step[1], step[2])
            elif op == 'clear':
                a.clear(); r = None
            elif op == 'in':
                r = step[1] in a
            elif op == 'copy':
                c = a.copy(step[1]); r = sorted((repr(k), repr(v)) for k, v in c.items())
            elif op == 'reopen':
                a = arch.make(kind, 'memo'); r = None
            out.append(('ok', repr(r)))
        except Exception as e:
            out.append(('exc', type(e).__name__))
    return out


def tree_real(root):
    res = []
    for d, ds, fs in os.walk(root):
        for n in sorted(ds + fs):
            res.append(norm(os.path.relpath(os.path.join(d, n), root)))
    return sorted(res)


def tree_model(fs, root):
    res = []

    def rec(node, prefix):
        for k in sorted(node):
            p = prefix + k
            res.append(norm(p))
            if isinstance(node[k], dict):
                rec(node[k], p + '/')
    n = fs._get(root)
    rec(n, '')
    return sorted(res)


def main():
    from stubs import posixfs
    from harness import arch
    bad = []
    n = 0
    for kind in KINDS:
        for name, seq in SEQS.items():
            # --- model
            inst = arch.installer()
            undo = inst.install()
            try:
                fs = inst.fresh()
                m_out = run(kind, seq, False)
                m_tree = tree_model(fs, '/w')
                m_sys = [(e[0],) + tuple(norm(os.path.basename(str(p).rstrip('/'))) for p in e[1:]) for e in fs.log
                         if e[0] in ('mkdir', 'rmdir', 'unlink', 'rename')]
            finally:
                undo()
            # --- real
            d = tempfile.mkdtemp(prefix='ksym_conf_')
            cwd = os.getcwd()
            r_sys = []
            saved = {}
            try:
                os.chdir(d)
                for nm in ('mkdir', 'rmdir', 'unlink', 'remove', 'rename', 'replace'):
                    saved[nm] = getattr(os, nm)

                    def mk(fn, nm):
                        def w(*a, **k):
                            try:
                                return fn(*a, **k)
                            finally:
                                r_sys.append(({'remove': 'unlink', 'replace': 'rename'}.get(nm, nm),) +
                                             tuple(norm(os.path.basename(str(p).rstrip('/'))) for p in a if isinstance(p, (str, bytes, os.PathLike))))
                        return w
                    setattr(os, nm, mk(saved[nm], nm))
                r_out = run(kind, seq, True)
                for nm, fn in saved.items():
                    setattr(os, nm, fn)
                saved = {}
                r_tree = tree_real(d)
            finally:
                for nm, fn in saved.items():
                    setattr(os, nm, fn)
                os.chdir(cwd)
                shutil.rmtree(d, ignore_errors=True)
            n += 1
            if m_out != r_out:
                bad.append((kind, name, 'results', [x for x in zip(m_out, r_out) if x[0] != x[1]][:3]))
            if m_tree != r_tree:
                bad.append((kind, name, 'tree', m_tree, r_tree))
            # failed attempts (e.g. rmdir of a non-empty parent by os.renames/removedirs) are part of both logs
            # directory listing order is file-system specific (the model lists in insertion order): compare as multisets
            if sorted(m_sys) != sorted(r_sys):
                bad.append((kind, name, 'syscalls', [x for x in zip(m_sys, r_sys) if x[0] != x[1]][:3], len(m_sys), len(r_sys)))
    if bad:
        for b in bad[:10]:
            print('CONFORMANCE MISMATCH', b)
        return 2
    print('conformance: %d sequences x archives agree (results, directory tree, multiset of mutating syscalls)' % n)
    return 0


if __name__ == '__main__':
    sys.exit(main())
