#!/usr/bin/env python3
"""evaluate one seeded change: tools/seedeval.py <dir with patch.diff demo.py meta.json> [PROP ...] [--tier quick]

Copies /repo's klepto into a scratch directory outside /repo and /verif, applies the patch there, confirms that
 (a) demo.py passes on the unchanged tree, (b) fails with the change, (c) the pinned test-suite still passes its 46
 tests with the change, then runs the named checks (default: the property in meta.json) against the changed copy
 (KLEPTO_VERIF_REPO) and reports whether each raised a VIOLATION.  The scratch copy is removed afterwards."""
import json, os, shutil, subprocess, sys, tempfile

def sh(cmd, **kw):
    return subprocess.run(cmd, shell=True, capture_output=True, text=True, **kw)

def main():
    args = [a for a in sys.argv[1:] if not a.startswith('--')]
    tier = 'quick'
    if '--tier' in sys.argv:
        tier = sys.argv[sys.argv.index('--tier') + 1]
        args = [a for a in args if a != tier]
    d = os.path.abspath(args[0])
    meta = json.load(open(os.path.join(d, 'meta.json')))
    props = args[1:] or [meta['property']]
    scratch = tempfile.mkdtemp(prefix='seedeval_')
    out = {'dir': d, 'property': meta['property']}
    try:
        shutil.copytree('/repo/klepto', os.path.join(scratch, 'klepto'))
        for f in ('setup.py', 'setup.cfg', 'pyproject.toml', 'tox.ini', 'version.py'):
            if os.path.exists('/repo/' + f):
                shutil.copy('/repo/' + f, scratch)
        r = sh('patch -p1 --no-backup-if-mismatch < %s' % os.path.join(d, 'patch.diff'), cwd=scratch)
        out['patch_applies'] = r.returncode == 0
        if r.returncode != 0:
            out['patch_error'] = (r.stdout + r.stderr)[-400:]
            print(json.dumps(out)); return 3
        demo = os.path.join(d, 'demo.py')
        r0 = sh('cd /tmp && PYTHONPATH=/repo timeout 300 /venv/bin/python %s' % demo)
        r1 = sh('cd /tmp && PYTHONPATH=%s timeout 300 /venv/bin/python %s' % (scratch, demo))
        out['demo_clean_exit'] = r0.returncode
        out['demo_changed_exit'] = r1.returncode
        out['demo_changed_tail'] = (r1.stdout + r1.stderr).strip().splitlines()[-1:] 
        t = sh('cd %s && PYTHONPATH=%s timeout 900 /venv/bin/python -m pytest -q -p no:cacheprovider --timeout=900 --continue-on-collection-errors klepto/tests 2>&1 | tail -1' % (scratch, scratch))
        out['tests'] = t.stdout.strip()
        out['tests_ok'] = '46 passed' in t.stdout
        out['checks'] = {}
        for p in props:
            c = sh('cd /verif && KLEPTO_VERIF_REPO=%s VERIF_EVIDENCE_DIR=%s ./check %s %s' % (scratch, os.path.join(scratch, 'evidence'), p, tier))
            viol = [l for l in c.stdout.splitlines() if l.startswith('VIOLATION')]
            sigs = [l.strip()[:300] for l in c.stdout.splitlines() if l.strip().startswith('config=')]
            out['checks'][p] = {'exit': c.returncode, 'violations': len(viol), 'first': sigs[:2], 'summary': [l for l in c.stdout.splitlines() if ' -> exit ' in l][-1:]}
        print(json.dumps(out, indent=1))
        # record in meta.json what the verifier itself ran and saw (the author's own claims stay under 'verified')
        meta['verifier'] = {
            'ran': ['patch -p1 < patch.diff on a scratch copy of /repo/klepto (never on /repo itself)',
                    'cd /tmp && PYTHONPATH=/repo /venv/bin/python demo.py  -> exit %s' % out['demo_clean_exit'],
                    'cd /tmp && PYTHONPATH=<scratch> /venv/bin/python demo.py  -> exit %s' % out['demo_changed_exit'],
                    'pytest klepto/tests on the scratch copy -> %s' % out['tests']] +
                   ['KLEPTO_VERIF_REPO=<scratch> ./check %s %s -> exit %s (%d violations)' % (p, tier, c['exit'], c['violations']) for p, c in out['checks'].items()],
            'confirmed': bool(out['demo_clean_exit'] == 0 and out['demo_changed_exit'] not in (0, None) and out['tests_ok']),
            'repo_head': sh('git -C /repo log --format=%h -1').stdout.strip(),
        }
        with open(os.path.join(d, 'meta.json'), 'w') as f:
            json.dump(meta, f, indent=1)
    finally:
        shutil.rmtree(scratch, ignore_errors=True)
    return 0

if __name__ == '__main__':
    sys.exit(main())
