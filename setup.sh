#!/bin/sh
# offline setup: overlay venv on top of /venv with crosshair-tool (brings z3-solver) and cvc5
set -e
cd "$(dirname "$0")"
V="$PWD/.venv"
if [ ! -x "$V/bin/python" ] || ! "$V/bin/python" -c 'import z3, crosshair, klepto' 2>/dev/null; then
  rm -rf "$V"
  /venv/bin/python -m venv "$V"
  SP=$("$V/bin/python" -c 'import sysconfig; print(sysconfig.get_paths()["purelib"])')
  printf "import site; site.addsitedir('/venv/lib/python3.12/site-packages')\n" > "$SP/_base.pth"
  PIP_NO_INDEX=1 "$V/bin/pip" install -q --no-index --find-links /opt/veriftools/wheels crosshair-tool cvc5 || \
  PIP_NO_INDEX=1 "$V/bin/pip" install -q --no-index --find-links /opt/veriftools/wheels crosshair-tool
fi
"$V/bin/python" -c 'import z3, klepto; print("setup ok: z3", z3.get_version_string(), "klepto", klepto.__file__)'
