"""symbolic proxy values that real (C-level) containers can hold"""
import z3
from .core import Ctx, Inconclusive, EngineError


class SymBool:
    """z3 Bool; truth-testing it is the only place where exploration forks"""
    __slots__ = ('e',)

    def __init__(self, e):
        self.e = e

    def __bool__(self):
        c = Ctx.cur
        if c is None:
            raise EngineError('SymBool evaluated outside an exploration')
        return c.branch(self.e)

    def __repr__(self):
        return '<SymBool %s>' % self.e


class SymEq(SymBool):
    """lazy equality of two atoms; decided through a per-path memo keyed by the atoms' ast ids"""
    __slots__ = ('a', 'b', 'neg', '_e')

    def __init__(self, a, b, neg=False):
        self.a, self.b, self.neg, self._e = a, b, neg, None

    @property
    def e(self):
        if self._e is None:
            c = self.a.e == self.b.e
            self._e = z3.Not(c) if self.neg else c
        return self._e

    def __bool__(self):
        c = Ctx.cur
        if c is None:
            raise EngineError('SymBool evaluated outside an exploration')
        return c.branch_eq(self.a, self.b) != self.neg


class Sym:
    """opaque symbolic atom of an uninterpreted sort: constant hash, solver-decided equality.

    Stands for 'an arbitrary hashable object that is not one of the concrete literals of the harness'."""
    __slots__ = ('e', 'i', 's')

    def __init__(self, e, s=None):
        self.e = e
        self.i = e.get_id()
        self.s = s if s is not None else e.sort().name()

    def __hash__(self):
        return 0

    def __eq__(self, o):
        if o is self:
            return True
        if isinstance(o, Sym):
            if o.s != self.s:
                return False
            if o.i == self.i:
                return True
            return SymEq(self, o)
        return False

    def __ne__(self, o):
        if o is self:
            return False
        if isinstance(o, Sym):
            if o.s != self.s:
                return True
            if o.i == self.i:
                return False
            return SymEq(self, o, True)
        return True

    def __repr__(self):
        return '<%s>' % self.e

    def __reduce__(self):
        return (_restore_sym, (REGISTRY.put(self),))

    def __deepcopy__(self, memo):
        return self

    def __copy__(self):
        return self


class _Registry:
    """lets real pickle/dill round-trip proxies: the pickle carries an index, the z3 term stays here"""

    def __init__(self):
        self.items = []

    def put(self, o):
        self.items.append(o)
        return len(self.items) - 1

    def get(self, i):
        return self.items[i]

    def clear(self):
        self.items = []


REGISTRY = _Registry()


def _restore_sym(i):
    o = REGISTRY.get(i)
    return type(o)(o.e)


class SymInt:
    """symbolic mathematical integer (z3 Int), as Python's int"""
    __slots__ = ('e',)

    def __init__(self, e):
        self.e = e

    @property
    def __class__(self):
        return int

    @staticmethod
    def _c(o):
        if type(o) is SymInt:
            return o.e
        if type(o) is int or type(o) is bool:
            return z3.IntVal(int(o))
        return None

    def _bin(self, o, f, r=False):
        b = self._c(o)
        if b is None:
            return NotImplemented
        return SymInt(f(b, self.e) if r else f(self.e, b))

    def _cmp(self, o, f):
        b = self._c(o)
        if b is None:
            return NotImplemented
        return SymBool(f(self.e, b))

    def __add__(self, o): return self._bin(o, lambda a, b: a + b)
    def __radd__(self, o): return self._bin(o, lambda a, b: a + b, True)
    def __sub__(self, o): return self._bin(o, lambda a, b: a - b)
    def __rsub__(self, o): return self._bin(o, lambda a, b: a - b, True)
    def __mul__(self, o): return self._bin(o, lambda a, b: a * b)
    def __rmul__(self, o): return self._bin(o, lambda a, b: a * b, True)
    def __neg__(self): return SymInt(-self.e)

    def __floordiv__(self, o):
        # z3 Int division rounds toward -inf for positive divisors (== Python //); only constants > 0 supported
        if type(o) is int and o > 0:
            return SymInt(self.e / z3.IntVal(o))
        raise EngineError('SymInt // %r unsupported' % (o,))

    def __eq__(self, o):
        r = self._cmp(o, lambda a, b: a == b)
        return False if r is NotImplemented else r

    def __ne__(self, o):
        r = self._cmp(o, lambda a, b: a != b)
        return True if r is NotImplemented else r

    def __lt__(self, o): return self._cmp(o, lambda a, b: a < b)
    def __le__(self, o): return self._cmp(o, lambda a, b: a <= b)
    def __gt__(self, o): return self._cmp(o, lambda a, b: a > b)
    def __ge__(self, o): return self._cmp(o, lambda a, b: a >= b)

    def __hash__(self):
        return hash(self.__index__())

    def __bool__(self):
        return bool(self != 0)

    def __index__(self):
        """concretise (needed by C code): fork over feasible values, smallest first"""
        ctx = Ctx.cur
        v = z3.simplify(self.e)
        if z3.is_int_value(v):
            return v.as_long()
        lo = 0
        if ctx.branch(self.e < 0):
            raise Inconclusive('negative SymInt concretised')
        while True:
            if ctx.branch(self.e == lo):
                return lo
            lo += 1
            if lo > 64:
                ctx.dead = 'unbounded concretisation of a symbolic int'
                ctx.inconclusive.append(ctx.dead)
                raise Inconclusive(ctx.dead)

    __int__ = __index__

    def __repr__(self):
        return '<%s>' % self.e

    def __reduce__(self):
        return (_restore_sym, (REGISTRY.put(self),))


class CVal:
    """concrete stand-in for an atom in replay mode: hashable, picklable, not a keymap 'fast type'"""
    __slots__ = ('tag',)

    def __init__(self, tag):
        self.tag = tag

    def __hash__(self):
        return hash(('CVal', self.tag))

    def __eq__(self, o):
        return isinstance(o, CVal) and o.tag == self.tag

    def __ne__(self, o):
        return not self.__eq__(o)

    def __repr__(self):
        return 'CVal(%r)' % self.tag

    def __reduce__(self):
        return (CVal, (self.tag,))

    def __lt__(self, o):
        return self.tag < o.tag


def is_sym(o):
    return isinstance(o, (Sym, SymBool)) or type(o) is SymInt
