"""ksym core: proxy-based dynamic symbolic execution of real Python code, decided by z3.

One `Ctx` explores one harness function by replay-based depth-first search over the tree of
solver-decided branch decisions.  The same harness can be run in *replay* mode (`ReplayCtx`) where every
symbolic variable is replaced by the concrete value a z3 model gave it, and the real, un-stubbed code
runs on plain Python objects.
"""
import time
import z3


class PathPruned(BaseException):
    """current path is infeasible / assumed away"""


class Inconclusive(BaseException):
    """engine cannot decide (solver unknown, cap hit, non-determinism)"""


class EngineError(Exception):
    pass


ArgSort = z3.DeclareSort('Arg')
ValSort = z3.DeclareSort('Val')


def _zstr(v):
    return str(v)


_FUNCS = {}


class Violation:
    __slots__ = ('label', 'info', 'assignment', 'path_no')

    def __init__(self, label, info, assignment, path_no):
        self.label, self.info, self.assignment, self.path_no = label, info, assignment, path_no


class Ctx:
    """symbolic exploration context"""
    cur = None
    mode = 'sym'

    def __init__(self, max_decisions=4000, max_paths=2_000_000, timeout_s=None, max_violations=40,
                 solver_timeout_ms=20000):
        self.solver = z3.Solver()
        self.solver.set('timeout', solver_timeout_ms)
        self.trail = []          # [cond, taken, other_unexplored, two_sided]
        self.prefix = []         # forced outcomes of the first two-sided decisions (tree splitting across workers)
        self.pos = 0
        self.queries = 0
        self.solver_s = 0.0
        self.paths = 0
        self.pruned_paths = 0
        self.decisions = 0       # solver-decided two-sided branch decisions
        self.obligations = {}    # label -> [reached, discharged]
        self.violations = []
        self.dead = None         # sticky reason why this path must be discarded
        self.inconclusive = []   # reasons (run-level)
        self.max_decisions = max_decisions
        self.max_paths = max_paths
        self.timeout_s = timeout_s
        self.max_violations = max_violations
        self.vars = []           # per path: (name, kind, z3expr)
        self.apps = []           # per path: (fname, argexprs, resexpr)
        self.counters = {}
        self.samples = []
        self.sample_every = 0
        self.closed = False
        self.notes = {}          # free-form per-run counters harnesses may bump
        self._keep = []
        self.eqmemo = {}
        self.appmemo = {}
        self._pobl = {}
        self._pviol = []
        self.memo = {}           # per path: z3 ast id -> decided truth value (PC only grows along a path)
        self.smtlog = None       # optional list collecting (assertions, extra, result) for cross-checking
        self.smtlog_every = 0
        self.smtlog_max = 12

    # ---------------------------------------------------------------- variables
    def _name(self, base):
        n = self.counters.get(base, 0)
        self.counters[base] = n + 1
        return '%s%d' % (base, n)

    def const(self, sort, base, kind):
        name = self._name(base)
        e = z3.Const(name, sort)
        self.vars.append((name, kind, e))
        return e

    # ---------------------------------------------------------------- solver
    def _sat(self, *extra):
        if self.dead:
            raise Inconclusive(self.dead)
        t = time.time()
        self.queries += 1
        r = self.solver.check(*extra)
        self.solver_s += time.time() - t
        if self.smtlog is not None and self.smtlog_every and self.queries % self.smtlog_every == 0 and len(self.smtlog) < self.smtlog_max:
            s2 = z3.Solver()
            s2.add(*self.solver.assertions())
            s2.add(*extra)
            self.smtlog.append((s2.to_smt2(), str(r)))
        if r == z3.unknown:
            self.dead = 'solver unknown: %s' % self.solver.reason_unknown()
            self.inconclusive.append(self.dead)
            raise Inconclusive(self.dead)
        return r == z3.sat

    def branch(self, cond):
        """decide a symbolic condition; forks exploration when both sides are feasible"""
        if self.dead:
            raise Inconclusive(self.dead)
        cond = z3.simplify(cond)
        k = cond.decl().kind()
        if k == z3.Z3_OP_TRUE:
            return True
        if k == z3.Z3_OP_FALSE:
            return False
        neg = False
        if k == z3.Z3_OP_NOT:
            cond, neg = cond.arg(0), True
        cid = cond.get_id()
        if cid in self.memo:
            return self.memo[cid] != neg
        r = self._branch(cond)
        self.memo[cid] = (r, cond)[0]
        self._keep.append(cond)
        return r != neg

    def branch_eq(self, a, b):
        """equality of two atoms, memoised per path on their ast ids (avoids building z3 terms)"""
        key = (a.i, b.i) if a.i < b.i else (b.i, a.i)
        r = self.eqmemo.get(key)
        if r is None:
            if self.dead:
                raise Inconclusive(self.dead)
            r = self.branch(a.e == b.e)
            self.eqmemo[key] = r
        return r

    def _branch(self, cond):
        if self.pos < len(self.trail):
            ent = self.trail[self.pos]
            if not ent[0].eq(cond):
                self.dead = 'non-deterministic replay at decision %d: %s vs %s' % (self.pos, ent[0], cond)
                self.inconclusive.append(self.dead)
                raise Inconclusive(self.dead)
            self.pos += 1
            self.solver.add(cond if ent[1] else z3.Not(cond))
            return ent[1]
        if len(self.trail) >= self.max_decisions:
            self.dead = 'decision cap %d hit' % self.max_decisions
            self.inconclusive.append(self.dead)
            raise Inconclusive(self.dead)
        t = self._sat(cond)
        f = self._sat(z3.Not(cond))
        if t and f:
            self.decisions += 1
            n2 = sum(1 for e in self.trail if e[3])
            if n2 < len(self.prefix):       # this worker's share of the tree: the first two-sided decisions are fixed
                self.trail.append([cond, self.prefix[n2], False, True])
            else:
                self.trail.append([cond, True, True, True])
        elif t:
            self.trail.append([cond, True, False, False])
        elif f:
            self.trail.append([cond, False, False, False])
        else:
            self.dead = 'path condition unsatisfiable'
            raise PathPruned()
        self.pos += 1
        taken = self.trail[-1][1]
        self.solver.add(cond if taken else z3.Not(cond))
        return taken

    def assume(self, cond):
        """restrict the input space; prunes the path if impossible"""
        cond = _expr(cond)
        if cond is True:
            return
        if cond is False:
            self.dead = 'assumption false'
            raise PathPruned()
        cond = z3.simplify(cond)
        if z3.is_true(cond):
            return
        if z3.is_false(cond) or not self._sat(cond):
            self.dead = 'assumption infeasible'
            raise PathPruned()
        self.solver.add(cond)

    def check(self, cond, label, info=None):
        """obligation: cond must be valid under the path condition"""
        if self.dead:
            raise Inconclusive(self.dead)
        ob = self._pobl.setdefault(label, [0, 0])
        ob[0] += 1
        cond = _expr(cond)
        if cond is True:
            ob[1] += 1
            return True
        if cond is False:
            self._sat()  # need a model of the path
            self._violation(label, info)
            return False
        cond = z3.simplify(cond)
        if z3.is_true(cond):
            ob[1] += 1
            return True
        if self._sat(z3.Not(cond)):
            self._violation(label, info)
            return False
        ob[1] += 1
        return True

    def holds(self, cond):
        """is cond valid under the path condition? (diagnosis only: records no obligation)"""
        cond = _expr(cond)
        if isinstance(cond, bool):
            return cond
        return not self._sat(z3.Not(cond))

    def _violation(self, label, info):
        if len(self.violations) + len(self._pviol) >= self.max_violations:
            return
        m = self.solver.model()
        self._pviol.append(Violation(label, info() if callable(info) else info,
                                         self.assignment(m), self.paths))

    def assignment(self, m):
        """render a model as plain data: ints, booleans, equivalence-class ids for atoms, F-tables"""
        classes = {}
        out = {'vars': {}, 'apps': []}

        def cls(e):
            v = m.eval(e, model_completion=True)
            key = (str(v.sort()), str(v))
            if key not in classes:
                classes[key] = '%s%d' % (key[0][0], len([k for k in classes if k[0] == key[0]]))
            return classes[key]
        for name, kind, e in self.vars:
            if kind == 'int':
                out['vars'][name] = m.eval(e, model_completion=True).as_long()
            elif kind == 'bool':
                out['vars'][name] = z3.is_true(m.eval(e, model_completion=True))
            else:
                out['vars'][name] = cls(e)
        def val(e):
            if z3.is_int(e):
                return m.eval(e, model_completion=True).as_long()
            if z3.is_bool(e):
                return z3.is_true(m.eval(e, model_completion=True))
            return cls(e)
        for fname, args, res in self.apps:
            out['apps'].append([fname, [val(a) for a in args], val(res)])
        return out

    # ---------------------------------------------------------------- exploration
    def explore(self, fn):
        t0 = time.time()
        self.closed = False
        while True:
            self.solver.reset()
            self.solver.set('timeout', 20000)
            self.pos = 0
            self.dead = None
            self.memo = {}
            self.eqmemo = {}
            self.appmemo = {}
            self._keep = []
            self.vars = []
            self.apps = []
            self.counters = {}
            self._pobl = {}
            self._pviol = []
            Ctx.cur = self
            try:
                fn(self)
                if self.dead:
                    # an engine signal was swallowed by the code under test
                    if self.dead in ('assumption false', 'assumption infeasible', 'path condition unsatisfiable'):
                        self.pruned_paths += 1
                elif self.sample_every and self.paths % self.sample_every == 0 and len(self.samples) < 6:
                    if self._sat():
                        self.samples.append(self.assignment(self.solver.model()))
            except PathPruned:
                self.pruned_paths += 1
            except Inconclusive as e:
                if str(e) not in self.inconclusive:
                    self.inconclusive.append(str(e))
            finally:
                Ctx.cur = None
            n2 = sum(1 for e in self.trail if e[3])
            if n2 < len(self.prefix) and not all(self.prefix[n2:]):
                pass                      # shorter than the split prefix: counted by the all-True sibling worker
            else:
                self.paths += 1
                for lab, (a, b) in self._pobl.items():
                    o = self.obligations.setdefault(lab, [0, 0])
                    o[0] += a
                    o[1] += b
                self.violations.extend(self._pviol)
            while self.trail and not (self.trail[-1][1] and self.trail[-1][2]):
                self.trail.pop()
            if not self.trail:
                self.closed = True
                break
            if self.paths >= self.max_paths:
                self.inconclusive.append('path cap %d hit' % self.max_paths)
                break
            if self.timeout_s and time.time() - t0 > self.timeout_s:
                self.inconclusive.append('time cap %ss hit' % self.timeout_s)
                break
            if any(r.startswith('non-deterministic') for r in self.inconclusive):
                break
            self.trail[-1][1] = False
        self.wall = time.time() - t0
        return self

    # ---------------------------------------------------------------- harness-facing helpers
    def atom(self, sort=ArgSort, base='a'):
        from .values import Sym
        return Sym(self.const(sort, base, 'atom'), sort.name())

    def int(self, base='n', lo=None, hi=None):
        from .values import SymInt
        e = self.const(z3.IntSort(), base, 'int')
        if lo is not None:
            self.solver.add(e >= lo)
        if hi is not None:
            self.solver.add(e <= hi)
        return SymInt(e)

    def choice(self, n, base='c'):
        """symbolic selector in range(n), returned as a concrete int (forks)"""
        e = self.const(z3.IntSort(), base, 'int')
        self.solver.add(e >= 0, e < n)
        for v in range(n - 1):
            if self.branch(e == v):
                return v
        return n - 1

    def bool(self, base='b'):
        e = self.const(z3.BoolSort(), base, 'bool')
        return self.branch(e)

    def apply(self, fname, args, ressort=ValSort):
        """uninterpreted function application on atoms / symbolic ints"""
        from .values import Sym, SymInt
        key = (fname,) + tuple(a.i if isinstance(a, Sym) else (('i', a.e.get_id()) if type(a) is SymInt else a) for a in args)
        try:
            r = self.appmemo.get(key)
            if r is not None:
                return r
        except TypeError:
            key = None
        exprs = []
        for a in args:
            if isinstance(a, Sym):
                exprs.append(a.e)
            elif type(a) is SymInt:
                exprs.append(a.e)
            elif isinstance(a, int):
                exprs.append(z3.IntVal(a))
            else:
                raise EngineError('apply: unsupported argument %r' % (a,))
        fk = (fname, tuple(str(x.sort()) for x in exprs), str(ressort))
        f = _FUNCS.get(fk)
        if f is None:
            f = _FUNCS[fk] = z3.Function(fname, *([x.sort() for x in exprs] + [ressort]))
        res = f(*exprs) if exprs else z3.Const(fname + '_const', ressort)
        self.apps.append((fname, exprs, res))
        if ressort == z3.IntSort():
            r = SymInt(res)
        elif ressort == z3.BoolSort():
            from .values import SymBool
            r = SymBool(res)
        else:
            r = Sym(res, ressort.name())
        if key is not None:
            self.appmemo[key] = r
        return r

    def eq(self, a, b):
        """equality of two values as something `check`/`assume` accept"""
        r = (a == b)
        return r

    def apply_tag(self, fname, args, n):
        """uninterpreted function into range(n), returned as a concrete int (forks): a deterministic tag of the arguments"""
        t = self.apply(fname, args, z3.IntSort())
        self.solver.add(t.e >= 0, t.e < n)
        for v in range(n - 1):
            if self.branch(t.e == v):
                return v
        return n - 1

    def apply_pred(self, fname, args):
        """uninterpreted predicate, decided (forks)"""
        return self.branch(self.apply(fname, args, z3.BoolSort()).e)

    def concrete(self):
        return False


def _expr(c):
    """normalise bool / SymBool / z3 expr"""
    from .values import SymBool
    if isinstance(c, SymBool):
        return c.e
    if isinstance(c, bool):
        return c
    if z3.is_expr(c):
        return c
    raise EngineError('not a condition: %r' % (c,))


def And(*cs):
    es = []
    for c in cs:
        c = _expr(c)
        if c is False:
            return False
        if c is True:
            continue
        es.append(c)
    if not es:
        return True
    return z3.And(*es)


def Or(*cs):
    es = []
    for c in cs:
        c = _expr(c)
        if c is True:
            return True
        if c is False:
            continue
        es.append(c)
    if not es:
        return False
    return z3.Or(*es)


def Not(c):
    c = _expr(c)
    if isinstance(c, bool):
        return not c
    return z3.Not(c)


def Implies(a, b):
    return Or(Not(a), b)


def Iff(a, b):
    a, b = _expr(a), _expr(b)
    if isinstance(a, bool) and isinstance(b, bool):
        return a == b
    if isinstance(a, bool):
        return b if a else Not(b)
    if isinstance(b, bool):
        return a if b else Not(a)
    return a == b


class ReplayCtx:
    """concrete twin of Ctx: symbolic variables take the values of a recorded assignment"""
    cur = None
    mode = 'replay'

    def __init__(self, assignment):
        self.asg = assignment
        self.counters = {}
        self.failed = []       # (label, info)
        self.obligations = {}
        self.diverged = []
        self.apptable = {}
        for fname, args, res in assignment.get('apps', []):
            self.apptable[(fname, tuple(args))] = res
        self.fresh = 1000
        self.notes = {}

    def _name(self, base):
        n = self.counters.get(base, 0)
        self.counters[base] = n + 1
        return '%s%d' % (base, n)

    def _val(self, base, default):
        name = self._name(base)
        if name in self.asg['vars']:
            return self.asg['vars'][name]
        self.diverged.append(name)
        return default

    def atom(self, sort=ArgSort, base='a'):
        from .values import CVal
        self.fresh += 1
        return CVal(self._val(base, str(sort)[0] + str(self.fresh)))

    def int(self, base='n', lo=None, hi=None):
        return self._val(base, lo if lo is not None else 0)

    def choice(self, n, base='c'):
        v = self._val(base, 0)
        return min(max(v, 0), n - 1)

    def bool(self, base='b'):
        return bool(self._val(base, False))

    def apply(self, fname, args, ressort=ValSort):
        from .values import CVal
        key = (fname, tuple(_cls_of(a) for a in args))
        if key not in self.apptable:
            self.fresh += 1
            if ressort == z3.IntSort():
                self.apptable[key] = 0
            elif ressort == z3.BoolSort():
                self.apptable[key] = False
            else:
                self.apptable[key] = str(ressort)[0] + str(self.fresh)
            self.diverged.append('app %s%r' % key)
        v = self.apptable[key]
        if ressort == z3.IntSort() or ressort == z3.BoolSort():
            return v
        return CVal(v)

    def apply_tag(self, fname, args, n):
        return min(max(int(self.apply(fname, args, z3.IntSort())), 0), n - 1)

    def apply_pred(self, fname, args):
        return bool(self.apply(fname, args, z3.BoolSort()))

    def assume(self, cond):
        if not bool(cond):
            raise PathPruned()

    def check(self, cond, label, info=None):
        ob = self.obligations.setdefault(label, [0, 0])
        ob[0] += 1
        if bool(cond):
            ob[1] += 1
            return True
        self.failed.append((label, info() if callable(info) else info))
        return False

    def eq(self, a, b):
        return a == b

    def holds(self, cond):
        return bool(cond)

    def concrete(self):
        return True

    def run(self, fn):
        Ctx.cur = self
        try:
            fn(self)
        except PathPruned:
            self.diverged.append('pruned')
        finally:
            Ctx.cur = None
        return self


def _cls_of(a):
    from .values import CVal
    if isinstance(a, CVal) or hasattr(a, 'tag'):
        return a.tag
    if isinstance(a, int):
        return a
    raise EngineError('replay apply: unsupported argument %r' % (a,))
