"""registry: property id -> harness module and the metadata written into the evidence"""
HIST_STUBS = ['random.choice(seq) -> element at a fresh symbolic index (every RR victim explored)']
HIST_ASSUME = [
    'arguments and results are opaque atoms of uninterpreted sorts: arbitrary hashable objects distinct from every literal in the harness and not of a keymap fast type (int/str/bytes/frozenset/None)',
    'the wrapped function is an uninterpreted function F (deterministic, nothing else assumed)',
    'maxsize is a mathematical integer >= 1, unbounded above (0 and None are separate configurations)',
    'configurations (decorator class, purge, backend, keymap, signature shape) are enumerated concretely and listed in per_configuration',
]

REGISTRY = {}


def reg(pid, module, **kw):
    kw['module'] = module
    kw.setdefault('level', 'model_checking')
    REGISTRY[pid] = kw


reg('C01', 'harness.hist', design_ref='6/C01',
    bounds={'quick': 'histories of 5 calls (all equality patterns of 5 arbitrary arguments), 3 steps with the management alphabet {call,dump,load,clear,clear(keepstats),archived(off),archived(on)}; 12 decorators x purge x {no archive, cache+dict_archive, dict_archive used directly} x {raw flat, stringmap non-flat}; two-parameter signature with 5 call spellings at 2 calls; results None/0 and failing calls (uninterpreted tag/predicate) at 3 calls; typed witness arguments 1/1.0/True/\'1\'/2 under type-distinguishing keymaps at 3 calls; scripted scenarios refill (2 calls, clear, 3 calls) and reload (2 calls, dump, clear, load, 3 calls); bulk preload of <= 2 archive entries then 3 calls; persistent backends (model FS / sqlite) at 3 calls',
            'thorough': 'histories of 6 calls, 4 steps with the management alphabet, keymaps raw/str/pyhash(modulo collisions)/pickle/md5, two-parameter signature at 3 calls'},
    outside='longer histories; file/dir/sql backends (covered with concrete keys by C03/C04 harness); python-hash collisions',
    stubs=HIST_STUBS + ['klepto.crypto str/repr/hashlib/dumps/__hash -> structural injective versions (stubs/cryptoshim.py)'],
    assumptions=HIST_ASSUME, expect_labels=['C01:value'])
reg('C02', 'harness.hist', design_ref='6/C02',
    bounds={'quick': 'as C01 quick; second decorator instance on the same archive after 2 calls + 2 calls',
            'thorough': 'as C01 thorough; second instance 3+3'},
    outside='longer histories; persistent backends; a later OS process',
    stubs=HIST_STUBS + ['klepto.crypto stubs as C01'], assumptions=HIST_ASSUME, expect_labels=['C02:iff', 'C02:once'])
reg('C05', 'harness.hist', design_ref='6/C05',
    bounds={'quick': '5 calls; preload of 0..3 archive entries + load() then 3 calls; constructor dispatch with maxsize in {None, symbolic Int >= 0} passed positionally or by keyword',
            'thorough': '7 calls; preload 0..4 then 4 calls; failing calls at 5 calls; scripts refill/reload/toggle'},
    outside='longer histories; re-entrant (recursive) calls of the decorated function', stubs=HIST_STUBS, assumptions=HIST_ASSUME, expect_labels=['C05:bound'])
reg('C06', 'harness.hist', design_ref='6/C06',
    bounds={'quick': '5 calls, symbolic maxsize >= 1, four policies x 2 modules x with/without dict archive; LRU compaction histories maxsize=1, 13 calls (calls 2..11 assumed to repeat call 1) and maxsize=2, 24 calls (calls 3..21 assumed to alternate between the first two arguments); fixed maxsize=2 at 7 calls with an archive (evict-then-reload); failing calls at 4 calls',
            'thorough': '7 calls; compaction histories also with an archive; fixed maxsize=2 at 9 calls and maxsize=3 at 8 calls; failing calls at 5 calls'},
    outside='maxsize >= 30 (LFU evicting more than 2 entries needs > 30 resident entries); histories after a bulk load() (bookkeeping knows nothing of preloaded entries; that case belongs to C05)',
    stubs=HIST_STUBS, assumptions=HIST_ASSUME, expect_labels=['C06:lru', 'C06:mru', 'C06:lfu', 'C06:rr', 'C06:hit-keeps'])
reg('C07', 'harness.hist', design_ref='6/C07',
    bounds={'quick': '5 calls, no_cache + four bounded policies, purge on/off, both modules, cache + dict_archive; 3 steps with the management alphabet; scripts refill/reload; results None/0 and failing calls; file/dir/sqlite-file archives at 3 calls read back through a NEW handle / NEW sqlite connection (what another process sees), with results the archive cannot encode (uninterpreted predicate)',
            'thorough': '6 calls; plus non-flat stringmap keys at 5 calls; persistent backends with symbolic maxsize at 4 calls'},
    outside='file/dir/sql backends with symbolic keys (their dict refinement is C03); what a cache does AFTER an archive refused an unencodable value (the history ends at the first refused write: observed, not claimed - no_cache then keeps the entry in memory, fails every later dump and may drop unarchived entries on a hit)', stubs=HIST_STUBS,
    assumptions=HIST_ASSUME, expect_labels=['C07:leaver-archived', 'C07:archive-monotone'])
reg('C15', 'harness.hist', design_ref='6/C15',
    bounds={'quick': 'as C01 quick', 'thorough': 'as C01 thorough'}, outside='longer histories',
    stubs=HIST_STUBS, assumptions=HIST_ASSUME, expect_labels=['C15:counters', 'C15:sum', 'C15:size'])
reg('C08', 'harness.sync', design_ref='6/C08',
    bounds={'quick': 'every sequence of 4 operations from the 16-operation alphabet {c[k]=v, del c[k], c.pop(k), a[k]=v, del a[k], dump(), dump(k), load(), load(k), sync(), sync(clear=True), archived(False), archived(True), open(b), drop(), c.archive = b} with symbolic keys and values, on cache+dict_archive and cache+null_archive',
            'thorough': 'every sequence of 5 operations, same alphabet'},
    outside='longer sequences; file/dir/sql archives behind the cache (their dict refinement is C03); dump/load with several key arguments at once',
    stubs=[], assumptions=['keys and values are opaque atoms (arbitrary hashable objects)', 'drop()/archived(True) with no archive at all may raise ValueError (the statement does not forbid it)'],
    expect_labels=['C08:memory', 'C08:archive', 'C08:flag', 'C08:null-empty'])
KEY_ASSUME = ['argument values and default objects are opaque atoms (arbitrary hashable, non-fast-type objects different from every literal)',
              'signature shapes are concrete programs generated by exec: 0-3 positional-or-keyword parameters with any suffix defaulted, optional *args, 0-2 keyword-only parameters with/without default, optional **kw (quick: 24 representative shapes; thorough: 72 + the quick ones; C19 thorough: all 336)',
              'call B uses the canonical spelling; all pairs of spellings follow by transitivity through it',
              'serialising keymaps run over the structural str/repr/digest/pickle stubs: no digest collisions, pickle injective and order-preserving']
KEY_STUBS = ['klepto.crypto str/repr/hashlib/dumps/__hash -> structural injective versions (stubs/cryptoshim.py)']
reg('C09', 'harness.keys', design_ref='6/C09',
    bounds={'quick': '24 shapes x 7 keymaps (+ klepto.keygen): call A in every spelling (positional count, omitted defaults, keyword order, 0-2 extra positionals, 0-2 extra keywords) vs canonical call B; a sibling function of the same code object with other defaults is used first; methods (instance as first argument); 19 parameter names that coincide with klepto-internal parameter names (self, func, ignored, key, ...)',
            'thorough': 'the 72 shapes with at most 2 positional-or-keyword and 1 keyword-only parameter (plus the quick shapes) x 11 keymaps'},
    outside='more than 3 positional / 2 keyword-only parameters, more than 2 extras; functools.partial objects; concrete fast-type argument values other than the listed witnesses',
    stubs=KEY_STUBS, assumptions=KEY_ASSUME, expect_labels=['C09:canonical'])
reg('C10', 'harness.keys', design_ref='6/C10',
    bounds={'quick': 'as C09 quick, information-preserving configurations only (flat keys without sentinel are skipped for shapes with *args, as the statement says); extra positionals that are strings equal to keyword names (p, q, a) under sentinel / non-flat keymaps', 'thorough': 'as C09 thorough'},
    outside='as C09; typed=True separation of 1/1.0/True is checked on concrete witnesses by harness.typed',
    stubs=KEY_STUBS, assumptions=KEY_ASSUME, expect_labels=['C10:distinct'])
reg('C11', 'harness.keys', design_ref='6/C11',
    bounds={'quick': '24 shapes x ignore specifications of <= 3 elements drawn from parameter names, indices, \'*\', \'**\' (a selection) x {raw, str} keymaps + klepto.keygen; single-element specifications also given bare (ignore=0, ignore=\'a\'); methods with self ignored by name, alone and with names, * and **',
            'thorough': 'the 24 quick shapes x every 1-element specification, 8 of the 2-element and 2 of the 3-element ones x 3 keymaps (a run over 72 shapes did not finish within 30 minutes and was withdrawn)'},
    outside='presence/absence of an extra argument that is ignored by index or by name (not specified by the statement: neither direction demanded); index specifications on methods whose self is ignored (klepto renumbers after removing self: not specified)',
    stubs=KEY_STUBS, assumptions=KEY_ASSUME, expect_labels=['C11:merges', 'C11:discriminates'])
reg('C17', 'harness.keys', design_ref='6/C17',
    bounds={'quick': '24 shapes x ignore specifications (<= 3 elements) x 5 keymaps: the key of one call computed under two independent symbolic iteration orders of every set built in klepto._inspect/klepto.keymaps; session scenario: session 1 has first computed the key of a call that differs only in the type of an equal argument (1 / 1.0 / True), session 2 is fresh (every mutable module-level container of klepto reset, python hash() values differ): key and dir_archive entry name must agree; entry name of 11 concrete key witnesses (path separators, blanks, pickled bytes, ints, tuples) in two sessions',
            'thorough': 'the 72 shapes with at most 2 positional-or-keyword and 1 keyword-only parameter (plus the quick shapes) x every 1-element specification, 8 of the 2-element and 2 of the 3-element ones x 6 keymaps; session scenario on all such shapes x 12 keymaps'},
    outside='that archived results are then found by a later OS process (C04, excluded there); process state kept anywhere else than in set iteration order, python hash() values, keyword order and mutable module-level containers / lru_cache wrappers of the klepto modules (e.g. closure cells)',
    stubs=KEY_STUBS + ['names `set`/`frozenset` in klepto._inspect / klepto.keymaps / klepto._archives, and the set constants those modules built at import -> subclasses with symbolic iteration order: every permutation up to 4 elements, the family {sorted, reversed, rotated, odd-first} above (set displays would bypass it; none occur in the anchored code)', 'python hash() -> injective wrapper tagged with the simulated session'],
    assumptions=KEY_ASSUME, expect_labels=['C17:stable'])
reg('C12', 'harness.rounding', design_ref='6/C12',
    bounds={'quick': '19 argument structures (scalar, list, tuple, set, frozenset, dict with str / non-str keys, two levels of nesting, range, bytes, str, None, namedtuple, empty list, one container object referenced twice: in a list, in a dict, as two arguments) x {simple, deep} x {inf_cache std+safe, lru_cache, klepto.keygen} + standalone simple/shallow/deep_round; every leaf has a symbolic dynamic type in {float,int,str} and a symbolic value; tol is a symbolic unbounded Int or None',
            'thorough': 'same structures through all 12 cache decorators + keygen; standalone decorators also with tol=None'},
    outside="numeric behaviour of Python's round (abstracted as uninterpreted R on both sides); nesting deeper than 2; structures outside the family (generators, numpy arrays)",
    stubs=['round(leaf, tol) -> uninterpreted R(leaf, tol) via Leaf.__round__', 'klepto.crypto str/repr stubs for the stringmap configuration'],
    assumptions=['leaf values are opaque atoms; only their dynamic type (float/int/str) and equalities matter to the code', 'frozenset is treated like set; namedtuple like tuple (must be rebuilt with its own type)'],
    expect_labels=['C12:key', 'C12:originals', 'C12:tol-none', 'C12:standalone'])
ARCH_STUBS = None
def _arch_stubs():
    try:
        from stubs import posixfs, sqlshim
        return posixfs.STUBS + sqlshim.STUBS
    except ImportError:          # gen_manifest.py runs without the overlay venv
        return ['model POSIX file system + re-bound os/posixpath/shutil/pox, lossless chunk serializers, sqlite codec (see stubs/)']
reg('C03', 'harness.arch', design_ref='6/C03',
    bounds={'quick': 'archives dict, null, file(pickle), file(json), dir(pickle), dir(json), dir(fast), sqltable(:memory:), sqltable(db file): symbolic write prefix of <= 2 writes/deletes, then every operation of the 24-operation mapping alphabet with symbolic arguments (stores <= 3 entries); for persistent archives also 1 write + 2 operations (first from the 8 mutating ones); sibling archive isolation after every step; alias witnesses',
            'thorough': 'prefix <= 3 then 1 operation; 1 write then every pair (first from the 10 mutating operations, second any) on all 7 stored kinds'},
    outside="serialized=False (source-text) archives, klepto._pickle internals (compression, memmap), HDF and sqlalchemy classes; real json turning int keys into str; dir/sql keys outside the concrete universes {'a','c-d',1,('t',2)} (dir) and {'a','b',1} (sql); more than 3 stored entries",
    stubs=[], assumptions=['dict/null/file archives: keys and values are opaque atoms; dir/sql archives: keys from a concrete universe behind a symbolic selector, values atoms',
                            'distinct dir keys are assumed to have distinct file names except in the alias scenario (which checks exactly that on witnesses)'],
    expect_labels=['C03:contents', 'C03:result', 'C03:exception', 'C03:isolation', 'C03:copy-equal', 'C03:equality'])
reg('C04', 'harness.arch', design_ref='6/C04',
    bounds={'quick': 'file(pickle/json), dir(pickle/json/fast), sqltable(db file): symbolic history of 3 writes (file archives, symbolic keys) or 2 writes (dir/sql archives, 4-key universe) from {set, set of a mutable container that is mutated at once (and whose read-back copy is mutated) or after all writes, delete, update}, then the same handle and a reader obtained by constructor / reported state / copy() / dill round-trip / a handle opened before the writes',
            'thorough': 'histories of 4 (file) / 3 (dir, sql) writes'},
    outside='another OS process and the time after the writer exited (only the model file system / db file survives between handles here); fidelity of the real serializers on arbitrary values; serialized=False import caching; pickling of sqlite-backed archives',
    stubs=[], assumptions=['as C03'], expect_labels=['C04:fresh-handle', 'C04:same-store', 'C04:settings'])
for _p in ('C03', 'C04'):
    REGISTRY[_p]['stubs'] = _arch_stubs()
TWIN_ASSUME = HIST_ASSUME + ['the two twins are built by the same constructor calls; RR draws are coupled (the twin re-uses the symbolic draw of the same step)']
reg('C16', 'harness.twin', design_ref='6/C16',
    bounds={'quick': 'histories of 4 calls (RR: 3) in which a symbolic subset of calls raises an exception of a symbolic class among {user-defined, TypeError, KeyError, AttributeError}; 12 decorators x {no archive, cache+dict_archive} x purge; safe decorators: 8 hostile argument witnesses (list, dict, set, objects whose __hash__/__repr__/__reduce_ex__ raise, nested) x 8 keymaps x with/without archive, two calls each',
            'thorough': 'histories of 5 calls (RR: 4)'},
    outside='longer histories; exceptions raised by the keymap or archive themselves on the standard decorators',
    stubs=HIST_STUBS + ['klepto.crypto stubs as C01'], assumptions=TWIN_ASSUME,
    expect_labels=['C16:same-exception', 'C16:single-evaluation', 'C16:no-trace', 'C16:as-if-not-made', 'C16:safe-result'])
reg('C18', 'harness.twin', design_ref='6/C18',
    bounds={'quick': 'histories of 3 calls; before each call side A may receive key() or key()+lookup() on any argument seen so far; 12 decorators x {no archive, cache+dict_archive}; one configuration per decorator with tol set; concrete float/nested-tuple witnesses with tol=2, deep on/off at 2 calls; everything a call newly stores (memory or archive) must be stored under key(args)',
            'thorough': 'histories of 4 calls; keymaps raw/str/pyhash'},
    outside='longer histories; ignore specifications (the key path itself is C09-C11)', stubs=HIST_STUBS + ['klepto.crypto stubs as C01'],
    assumptions=TWIN_ASSUME, expect_labels=['C18:lookup', 'C18:no-eval', 'C18:no-change', 'C18:as-if-not-probed', 'C18:wrapped', 'C18:key-stored'])
reg('C20', 'harness.twin', design_ref='6/C20',
    bounds={'quick': 'prefix of 2 calls, real dill round trip of the decorated function, one call on the original only, continuation of 2 calls on clone and reference twin; 12 decorators x {no archive, cache+dict_archive, cache+null_archive}; composed keymaps (stringmap+hashmap) and sentinel keymaps on cache+dict_archive',
            'thorough': 'prefixes of 1-3 calls, continuations of 3 calls'},
    outside='persistent (file/dir/sql) archives staying shared after the round trip; keymaps other than the default/raw ones',
    stubs=HIST_STUBS + ['proxies survive real dill through __reduce__ + an in-process registry (the clone holds the same symbolic variables)'],
    assumptions=TWIN_ASSUME, expect_labels=['C20:equal-after-roundtrip', 'C20:continuation', 'C20:independent', 'C20:configuration'])
reg('C19', 'harness.validate', design_ref='6/C19',
    bounds={'quick': '24 signature shapes as plain functions (+ bound methods and callable instances for the simpler shapes) and up to 4 functools.partial variants each (fixing 1-3 positionals and/or one keyword); every call with 0-5 positional arguments and every subset of keywords from the pool {parameter names, keyword-only names, p, q}',
            'thorough': 'all 336 shapes x {function, bound method, callable instance} x all partial variants'},
    outside='more than 5 positional arguments; keyword names outside the pool (assumed equivalent to p/q because the code only tests names for equality with parameter names - an assumption, not something the solver shows); builtins, partials of partials, partials of bound methods / callable instances (probed once: validate raises AttributeError instead of TypeError for partial(instance, 1) and accepts some unbindable calls of partial(obj.method, 1); recorded in DESIGN.md, not claimed)',
    stubs=[], assumptions=['keyword names are concrete (a symbolic name would be unsound here, DESIGN.md 6/C19)', 'argument values are atoms: the verdict must not depend on them',
                            'every input is a finite structural choice, so one path is close to one concrete call form; the solver contributes the closure certificate and the counterexample'],
    expect_labels=['C19:agree', 'C19:validate', 'C19:never-called'])
reg('C13', 'harness.crash', design_ref='6/C13',
    bounds={'quick': 'file(pickle/json), dir(pickle/json/fast), sqltable(db file) archives with 2 prior entries; one operation from {set new key, overwrite, setdefault, update of 2 keys, del, pop, clear, cache.dump of 2 entries, re-open, re-open with a seeding dict}; written data reaches the file at write() or only at flush/close (symbolic choice: large vs small data); the crash index is a symbolic Int over every mutating system call of the operation (create/truncate, each write chunk, close, mkdir, rename, unlink, rmdir); then a fresh handle runs len/keys/items/getitem/cache.load',
            'thorough': 'prior store of 0, 1 or 2 entries (symbolic)'},
    outside='power loss / un-synced data (kill -9 semantics: completed system calls persist); crashes inside a sqlite call (journal recovery is sqlite C code) - sqlite crash points are between the real execute/commit calls (symbolically on a scratch database; confirmed by killing a real writer process before its n-th execute/commit); serialized=False, compression/memmap internals, HDF; more than one operation per run',
    stubs=[], assumptions=['values are atoms; keys are the concrete a, b, c', 'multi-chunk writes: the serializer stub issues a header and a body chunk so that a prefix can be on disk'],
    expect_labels=['C13:old-or-new', 'C13:untouched', 'C13:len', 'C13:load'])
REGISTRY['C13']['stubs'] = _arch_stubs() + ['crash = freeze of the model at a symbolic system-call index (BaseException at every later syscall of the dying writer)']
reg('C14', 'harness.conc', design_ref='6/C14',
    bounds={'quick': 'dir and file archives (pickle) with 2 prior entries; 19 (dir) + 12 (file) pairs of operations {writer of a new key / overwrite / delete} x {second writer on a distinct key, getitem, contains, len, iter, __asdict__, cache.load(), opener} and 2 triples (two writers + reader); opener with the default in-memory cache in front (cached=True) on an empty and on a filled archive; 10 writer/reader pairs on the sqlite-file table archive (yield points at klepto\'s execute/commit/select calls on the real sqlite3); writers whose data stays in the userspace buffer until close (symbolic choice); every schedule with at most 2 pre-emptions at system-call granularity (which process starts, where it is pre-empted, who continues) - symbolic choices, exploration closed',
            'thorough': 'at most 3 pre-emptions for pairs, 2 for triples; json variants'},
    outside='sqlite page-level locking between real OS processes (C/OS level: not applicable) - the sqlite-file archive is covered only for writer/reader pairs interleaved at the granularity of klepto\'s own statements (execute / commit / select), no writer/writer pairs; schedules with more pre-emptions than the bound; more than 3 processes; threads sharing one handle',
    stubs=[], assumptions=['processes = threads with strict hand-over at every model system call; each has its own archive handle opened beforehand', 'values are atoms, keys concrete'],
    expect_labels=['C14:no-lost-entry', 'C14:stored-value', 'C14:no-phantom', 'C14:no-missing', 'C14:len'])
REGISTRY['C14']['stubs'] = _arch_stubs() + ['scheduler: strict hand-over at FS.sys, symbolic pre-emption decisions']

_T = 'bounded symbolic execution of the real code (ksym proxies on CPython), branch and obligation queries decided by z3, closed path tree, concrete replay of counterexamples'
_N = 'trusted: CPython, z3 5.1, the ksym proxies (constant hash + solver-decided equality) and the listed stubs; atoms stand for arbitrary hashable non-fast-type objects; bounds as in evidence.coverage.bounds; no claim outside them'
TEXT = {
    'C01': {'level': 'for every value of the symbolic arguments/maxsize/F within the history bounds, each result returned by the real wrappers equals F(bound arguments) (z3 validity per path, exploration closed)', 'note': _N, 'technique': _T},
    'C02': {'level': 'within the history bounds, the real wrapped function is evaluated exactly when its key is in neither the real memory cache nor the real archive, at most once per call, and never twice per key while a lossless archive stays attached', 'note': _N, 'technique': _T},
    'C05': {'level': 'within the history bounds and for every maxsize >= 1 (plus 0/None, positional or keyword), size after each call <= max(maxsize, size before) is z3-valid on every path; includes bulk load() pre-population', 'note': _N, 'technique': _T},
    'C06': {'level': 'within the history bounds and for every maxsize >= 1, the set of entries that leave the real cache on each call equals the reference policy victim set computed from the statement (all RR choices explored through a symbolic random.choice)', 'note': _N, 'technique': _T},
    'C07': {'level': 'within the history bounds, every entry leaving the real memory cache is in the real archive with an equal value, archived entries never change, and every computed result stays retrievable', 'note': _N, 'technique': _T},
    'C08': {'level': 'for every sequence of operations within the bound and every equality pattern of keys/values, the real cache, both real archive objects and archived() equal the three-dict oracle written from the statement after every step', 'note': _N, 'technique': _T},
    'C09': {'level': 'for every shape/keymap in the bound and every spelling of call A, z3 shows: keys differ => bindings differ (so equal bindings give equal keys), and the second equivalent call is a hit on a real cache', 'note': _N, 'technique': _T},
    'C10': {'level': 'for every shape/information-preserving keymap in the bound, z3 shows: keys equal => bindings equal', 'note': _N, 'technique': _T},
    'C11': {'level': 'for every shape/ignore specification in the bound, z3 shows keys equal <=> bindings equal outside the ignored arguments', 'note': _N, 'technique': _T},
    'C17': {'level': 'for every shape/ignore specification/keymap in the bound, the key is invariant under every iteration order of the sets built while computing it (symbolic permutations, z3-closed)', 'note': _N, 'technique': _T},
    'C12': {'level': 'for every structure in the family, every dynamic type of every leaf and every tol, the key computed by the real code equals the key of the oracle-rounded arguments (z3 validity over uninterpreted R), the function receives the original objects, tol=None rounds nothing and no structure makes the call fail', 'note': _N, 'technique': _T},
    'C03': {'level': 'CrossHair kernels (symbolic str keys up to 3-4 characters): directory names of distinct dash-free keys differ, a separator-free key is listed as itself, _sqlname round-trips; then for every pre-state reachable by the write prefix and every operation with symbolic arguments within the bound, the real archive returns/raises what the dict oracle does and holds the same contents afterwards (z3 validity), failing operations leave contents unchanged, sibling archives are untouched, copy() is equal and independent', 'note': _N, 'technique': _T},
    'C04': {'level': 'for every write history within the bound and every way of obtaining a second handle, the second handle holds exactly the oracle contents (snapshot values, original key types, same settings) and writes through it reach the first handle', 'note': _N, 'technique': _T},
    'C16': {'level': 'within the history bounds, a raising call propagates the same exception object after one evaluation and leaves memory, archive and statistics unchanged; every later observable equals that of a twin that never saw the call; safe decorators return F(args) for every hostile witness under every keymap', 'note': _N, 'technique': _T},
    'C18': {'level': 'within the history bounds, key()/lookup() agree with what calls store, evaluate nothing, change nothing, and a twin that was never probed is indistinguishable afterwards', 'note': _N, 'technique': _T},
    'C20': {'level': 'within the bounds, the clone obtained through the real dill equals the original (contents, statistics, configuration), is independent in memory, and every later observable equals that of a never-pickled twin', 'note': _N, 'technique': _T},
    'C19': {'level': 'for every program in the family and every call form within the bound, isvalid/validate agree with the outcome of binding the same call on a stub with the same signature, and the function is never called (closed enumeration of a finite structural space through symbolic selectors)', 'note': _N, 'technique': _T},
    'C13': {'level': 'for every crash point of every operation in the bound (symbolic crash index decided by z3, exploration closed), a fresh handle reads without error, sees old-or-new for touched keys, unchanged untouched keys and no never-stored key; counterexamples are confirmed by killing a real writer process at every mutating os call on a real file system', 'note': _N, 'technique': _T},
    'C14': {'level': 'for every schedule within the pre-emption bound (symbolic scheduling decisions, closed exploration) and all values, writers on distinct keys lose nothing and readers/openers never fail, never see a never-stored key or value, and (file archive) see a complete earlier or later dictionary; this is bounded symbolic exploration of interleavings - the weakest use of the technique here; for the SQL archive only statement-level writer/reader interleavings are covered (sqlite\'s own locking is not applicable)', 'note': _N, 'technique': _T + '; bounded pre-emption schedule exploration'},
    'C15': {'level': 'within the history bounds (calls interleaved with dump/load/clear/toggle), info() equals ground-truth counters derived from before/after snapshots of memory and archive', 'note': _N, 'technique': _T},
}
NOT_APPLICABLE = []
