#!/usr/bin/env python
"""entry point: run.py check <property> [--tier quick|thorough]   |   run.py replay <file>"""
import json
import os
import sys

HERE = os.path.dirname(os.path.abspath(__file__))
sys.path.insert(0, HERE)
import runner  # noqa: E402


def main(argv):
    if len(argv) >= 2 and argv[0] == 'check':
        prop = argv[1]
        tier = os.environ.get('VERIF_TIER') or 'quick'
        if '--tier' in argv:
            tier = argv[argv.index('--tier') + 1]
        runner._setup_path()
        from props import REGISTRY
        if prop not in REGISTRY:
            print('unknown property', prop)
            return 2
        meta = REGISTRY[prop]
        return runner.run_check(prop, tier, meta['module'], meta)
    if len(argv) >= 2 and argv[0] == 'replay':
        runner._setup_path()
        import importlib
        with open(argv[1]) as f:
            rec = json.load(f)
        mod = importlib.import_module(rec['module'])
        ok, detail = runner.replay_one(mod, rec['cfg'], rec['assignment'], rec['label'])
        print(json.dumps({'reproduced': ok, 'detail': detail, 'case': rec.get('rendered')}, indent=1, default=str))
        if ok:
            print('VIOLATION property=%s replay=%s' % (rec['property'], argv[1]))
            return 1
        return 0
    print(__doc__)
    return 2


if __name__ == '__main__':
    sys.exit(main(sys.argv[1:]))
