#!/usr/bin/env python
"""entry point: run.py check <property> [--tier quick|thorough]   |   run.py replay <file>"""
import json
import os
import sys

HERE = os.path.dirname(os.path.abspath(__file__))
sys.path.insert(0, HERE)
import runner  # noqa: E402


def kernels_prestep(prop):
    """C03-A: CrossHair over the pure string kernels (harness/kernels_crosshair.py); returns (rc, lines, summary)"""
    import hashlib
    import subprocess
    import tempfile
    fd, tmp = tempfile.mkstemp(suffix='.json', prefix='ksym_kernels_')
    os.close(fd)
    try:
        c = subprocess.run([sys.executable, os.path.join(HERE, 'tools', 'kernels.py'), '--timeout', '90', '--json', tmp],
                           capture_output=True, text=True)
        print(c.stdout.strip()[-1500:])
        try:
            with open(tmp) as f:
                ksum = json.load(f)
        except Exception:
            print('INCONCLUSIVE: CrossHair kernels produced no summary: %s' % c.stderr[-600:])
            return 2, [], {'error': c.stderr[-600:]}
    finally:
        os.unlink(tmp)
    known = {json.dumps(k['signature'], sort_keys=True): k for k in runner.load_known()
             if k.get('property') == prop and k.get('status') == 'known'}
    lines, rc = [], 0
    viol = list(ksum['violations'])
    for k in ksum['known']:
        sig = json.dumps({'label': 'C03:kernel', 'kernel': k['kernel'], 'class': k['class']}, sort_keys=True)
        if sig in known:
            lines.append('KNOWN-FINDING: property=%s %s' % (prop, known[sig]['what']))
        else:
            viol.append(k)
    os.makedirs(runner.REPLAYS, exist_ok=True)
    for v in viol:
        key = json.dumps([v['kernel'], v['args']])
        path = os.path.join(runner.REPLAYS, '%s_kernel_%s.json' % (prop, hashlib.md5(key.encode()).hexdigest()[:10]))
        with open(path, 'w') as f:
            json.dump({'property': prop, 'module': 'kernel', 'kernel': v['kernel'], 'args': v['args'], 'detail': v['detail']}, f, indent=1)
        lines.append('VIOLATION property=%s replay=%s' % (prop, path))
        lines.append('  kernel=%s args=%r %s' % (v['kernel'], v['args'], v['detail']))
        rc = 1
    if rc == 0 and ksum['inconclusive']:
        rc = 2
        for i in ksum['inconclusive']:
            lines.append('INCONCLUSIVE: kernel ' + i)
    return rc, lines, ksum


def main(argv):
    if len(argv) >= 2 and argv[0] == 'check':
        prop = argv[1]
        tier = os.environ.get('VERIF_TIER') or 'quick'
        if '--tier' in argv:
            tier = argv[argv.index('--tier') + 1]
        runner._setup_path()
        from props import REGISTRY
        if prop not in REGISTRY:
            print('unknown property', prop)
            return 2
        meta = REGISTRY[prop]
        if prop in ('C03', 'C04', 'C13', 'C14'):
            # stub conformance first: these checks rely on the model file system
            import subprocess
            c = subprocess.run([sys.executable, os.path.join(HERE, 'tools', 'conformance.py')], capture_output=True, text=True)
            print(c.stdout.strip()[-1500:])
            if c.returncode != 0:
                print('INCONCLUSIVE: model file system and real file system disagree (stub conformance); %s not decided' % prop)
                print(c.stderr[-800:])
                return 2
            meta = dict(meta, assumptions=list(meta.get('assumptions', [])) + ['stub conformance run: ' + c.stdout.strip().splitlines()[-1]])
        pre_rc, pre_lines = 0, []
        if prop == 'C03':
            pre_rc, pre_lines, ksum = kernels_prestep(prop)
            meta = dict(meta, kernels=ksum)
        rc = runner.run_check(prop, tier, meta['module'], meta)
        for ln in pre_lines:
            print(ln)
        if 1 in (rc, pre_rc):
            return 1
        return 2 if 2 in (rc, pre_rc) else 0
    if len(argv) >= 2 and argv[0] == 'replay':
        runner._setup_path()
        import importlib
        with open(argv[1]) as f:
            rec = json.load(f)
        if rec.get('module') == 'kernel':
            import subprocess
            c = subprocess.run([sys.executable, os.path.join(HERE, 'tools', 'kernels.py'), '--replay', argv[1]], capture_output=True, text=True)
            print(c.stdout.strip())
            if c.returncode == 1:
                print('VIOLATION property=%s replay=%s' % (rec['property'], argv[1]))
            return c.returncode
        mod = importlib.import_module(rec['module'])
        ok, detail = runner.replay_one(mod, rec['cfg'], rec['assignment'], rec['label'])
        print(json.dumps({'reproduced': ok, 'detail': detail, 'case': rec.get('rendered')}, indent=1, default=str))
        if ok:
            print('VIOLATION property=%s replay=%s' % (rec['property'], argv[1]))
            return 1
        return 0
    print(__doc__)
    return 2


if __name__ == '__main__':
    sys.exit(main(sys.argv[1:]))
