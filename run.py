#!/usr/bin/env python
"""entry point: run.py check <property> [--tier quick|thorough]   |   run.py replay <file>"""
import json
import os
import sys

HERE = os.path.dirname(os.path.abspath(__file__))
sys.path.insert(0, HERE)
import runner  # noqa: E402


def main(argv):
    if len(argv) >= 2 and argv[0] == 'check':
        prop = argv[1]
        tier = os.environ.get('VERIF_TIER') or 'quick'
        if '--tier' in argv:
            tier = argv[argv.index('--tier') + 1]
        runner._setup_path()
        from props import REGISTRY
        if prop not in REGISTRY:
            print('unknown property', prop)
            return 2
        meta = REGISTRY[prop]
        if prop in ('C03', 'C04', 'C13', 'C14'):
            # stub conformance first: these checks rely on the model file system
            import subprocess
            c = subprocess.run([sys.executable, os.path.join(HERE, 'tools', 'conformance.py')], capture_output=True, text=True)
            print(c.stdout.strip()[-1500:])
            if c.returncode != 0:
                print('INCONCLUSIVE: model file system and real file system disagree (stub conformance); %s not decided' % prop)
                print(c.stderr[-800:])
                return 2
            meta = dict(meta, assumptions=list(meta.get('assumptions', [])) + ['stub conformance run: ' + c.stdout.strip().splitlines()[-1]])
        return runner.run_check(prop, tier, meta['module'], meta)
    if len(argv) >= 2 and argv[0] == 'replay':
        runner._setup_path()
        import importlib
        with open(argv[1]) as f:
            rec = json.load(f)
        mod = importlib.import_module(rec['module'])
        ok, detail = runner.replay_one(mod, rec['cfg'], rec['assignment'], rec['label'])
        print(json.dumps({'reproduced': ok, 'detail': detail, 'case': rec.get('rendered')}, indent=1, default=str))
        if ok:
            print('VIOLATION property=%s replay=%s' % (rec['property'], argv[1]))
            return 1
        return 0
    print(__doc__)
    return 2


if __name__ == '__main__':
    sys.exit(main(sys.argv[1:]))
